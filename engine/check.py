import os, sys, traceback
sys.path.insert(0, os.path.dirname(os.path.abspath(__file__)))
from verifkit import build as B


def main():
    args = sys.argv[1:]
    if not args:
        print("usage: check <ID> [quick|thorough] | setup | replay <file> | selftest")
        return 2
    cmd = args[0]
    try:
        if cmd != 'selftest':
            B.lock()
        if cmd == 'setup':
            from verifkit import setup
            return setup.main(args[1:])
        if cmd == 'replay':
            from verifkit import replay
            return replay.main(args[1:])
        if cmd == 'selftest':
            from verifkit import selftest
            return selftest.main(args[1:])
        from verifkit import props, props_decl
        pid = cmd.upper()
        tier = args[1] if len(args) > 1 else os.environ.get('VERIF_TIER', 'quick')
        if tier not in ('quick', 'thorough'):
            tier = 'quick'
        if pid not in props.PROPS:
            print(f"unknown property {pid}")
            return 2
        rc = props.PROPS[pid](tier)
        if tier == 'thorough' and not os.environ.get('VERIF_KEEP'):
            # thorough workspaces are large (up to 4e5 fields, three profiles): drop sources and build outputs again
            B.clean_workspaces(lambda ws: 'thorough' in ws or ws in ('u32full', 'u32put', 'consts32', 'builder-c16', 'consts-c16'))
        return rc
    except B.MachineryError as e:
        print(f"MACHINERY-FAILURE: {e}", file=sys.stderr)
        return 2
    except Exception:
        traceback.print_exc()
        print("MACHINERY-FAILURE: internal error", file=sys.stderr)
        return 2


if __name__ == '__main__':
    sys.exit(main())
