//! Scans `rustc -Zunpretty=expanded` output (C18): no `unsafe` outside items marked
//! `#[automatically_derived]`, no path rooted in `std`/`alloc`, every absolute path rooted in an
//! allowed crate. Prints one JSON object per file.
use syn::visit::{self, Visit};

struct V {
    hits: Vec<serde_json::Value>,
    allowed_roots: Vec<String>,
    paths: u64,
    items: u64,
    unsafe_in_derived: u64,
}

fn is_derived(attrs: &[syn::Attribute]) -> bool {
    attrs.iter().any(|a| a.path().is_ident("automatically_derived"))
}

fn line_of(span: proc_macro2::Span) -> usize {
    span.start().line
}

impl V {
    fn hit(&mut self, kind: &str, what: String, line: usize) {
        self.hits.push(serde_json::json!({"kind": kind, "what": what, "line": line}));
    }
}

impl<'ast> Visit<'ast> for V {
    fn visit_item(&mut self, i: &'ast syn::Item) {
        self.items += 1;
        visit::visit_item(self, i);
    }
    fn visit_item_impl(&mut self, i: &'ast syn::ItemImpl) {
        if is_derived(&i.attrs) {
            // the compiler's own derive output (e.g. `unsafe impl TrivialClone`) is not the macro's
            if i.unsafety.is_some() {
                self.unsafe_in_derived += 1;
            }
            return;
        }
        if i.unsafety.is_some() {
            self.hit("unsafe", "unsafe impl".into(), line_of(i.impl_token.span));
        }
        visit::visit_item_impl(self, i);
    }
    fn visit_item_trait(&mut self, i: &'ast syn::ItemTrait) {
        if i.unsafety.is_some() {
            self.hit("unsafe", format!("unsafe trait {}", i.ident), line_of(i.ident.span()));
        }
        visit::visit_item_trait(self, i);
    }
    fn visit_expr_unsafe(&mut self, e: &'ast syn::ExprUnsafe) {
        self.hit("unsafe", "unsafe block".into(), line_of(e.unsafe_token.span));
        visit::visit_expr_unsafe(self, e);
    }
    fn visit_item_fn(&mut self, f: &'ast syn::ItemFn) {
        if f.sig.unsafety.is_some() {
            self.hit("unsafe", format!("unsafe fn {}", f.sig.ident), line_of(f.sig.ident.span()));
        }
        visit::visit_item_fn(self, f);
    }
    fn visit_impl_item_fn(&mut self, f: &'ast syn::ImplItemFn) {
        if f.sig.unsafety.is_some() {
            self.hit("unsafe", format!("unsafe fn {}", f.sig.ident), line_of(f.sig.ident.span()));
        }
        visit::visit_impl_item_fn(self, f);
    }
    fn visit_item_foreign_mod(&mut self, f: &'ast syn::ItemForeignMod) {
        self.hit("unsafe", "extern block".into(), line_of(f.abi.extern_token.span));
        visit::visit_item_foreign_mod(self, f);
    }
    fn visit_item_extern_crate(&mut self, e: &'ast syn::ItemExternCrate) {
        let n = e.ident.to_string();
        if n == "std" || n == "alloc" {
            self.hit("path", format!("extern crate {n}"), line_of(e.ident.span()));
        }
    }
    fn visit_path(&mut self, p: &'ast syn::Path) {
        self.paths += 1;
        let first = p.segments.first().map(|s| s.ident.to_string()).unwrap_or_default();
        let full = p.segments.iter().map(|s| s.ident.to_string()).collect::<Vec<_>>().join("::");
        let line = p.segments.first().map(|s| line_of(s.ident.span())).unwrap_or(0);
        if p.leading_colon.is_some() {
            if !self.allowed_roots.iter().any(|r| *r == first) {
                self.hit("path", format!("::{full}"), line);
            }
        } else if p.segments.len() >= 2 && (first == "std" || first == "alloc") {
            self.hit("path", full, line);
        }
        visit::visit_path(self, p);
    }
    fn visit_use_tree(&mut self, u: &'ast syn::UseTree) {
        if let syn::UseTree::Path(p) = u {
            let n = p.ident.to_string();
            if n == "std" || n == "alloc" {
                self.hit("path", format!("use {n}::.."), line_of(p.ident.span()));
            }
        }
        // do not descend: `use` trees of the harness prelude are not the macro's output
    }
    fn visit_macro(&mut self, m: &'ast syn::Macro) {
        // un-expanded macro invocations must not survive expansion (tokens inside would be invisible to the scan)
        let name = m.path.segments.last().map(|s| s.ident.to_string()).unwrap_or_default();
        self.hit("unexpanded_macro", name, m.path.segments.first().map(|s| line_of(s.ident.span())).unwrap_or(0));
    }
}

fn main() {
    let mut out = Vec::new();
    for f in std::env::args().skip(1) {
        let src = std::fs::read_to_string(&f).unwrap();
        match syn::parse_file(&src) {
            Ok(file) => {
                let mut v = V {
                    hits: vec![],
                    allowed_roots: vec!["core".into(), "arbitrary_int".into()],
                    paths: 0,
                    items: 0,
                    unsafe_in_derived: 0,
                };
                v.visit_file(&file);
                out.push(serde_json::json!({"file": f, "ok": true, "items": v.items, "paths": v.paths, "hits": v.hits, "unsafe_in_derived": v.unsafe_in_derived}));
            }
            Err(e) => out.push(serde_json::json!({"file": f, "ok": false, "error": e.to_string()})),
        }
    }
    println!("{}", serde_json::to_string(&out).unwrap());
}
