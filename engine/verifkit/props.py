"""Per-property drivers."""
import json, os, time
from . import build as B, core, layouts as L, rustgen as R, sets
from .model import *

ASSUME_REGMC = [
    "rustc/cargo 1.95 compile the generated crates faithfully",
    "arbitrary-int 1.3.0 (new/value/extract_*) as pinned by /repo/Cargo.lock",
    "generated Machine adapters are mechanical casts; REG (bit-at-a-time reference, ~60 lines) is correct; its segment fast path is re-checked against it at start-up",
    "raw values / field values wider than the stated full-enumeration bounds are covered by the finite alphabets only",
]


def profile_for(tier):
    return 'checked' if tier == 'quick' else 'fast'


def build_set(chk, wsname, structs, profile):
    from . import oracle
    for s in structs:
        # generator guard: everything handed to the explorers (except the BEYOND family) must be valid by the reference model
        if s.family != 'BEYOND':
            for f in s.fields:
                rr = [(lo, lo + l - 1) for lo, l in f.ranges]
                ty = {'b': 'bool', 'u': f"u{f.w}", 'n': f"u{f.w}", 'i': f"i{f.w}"}.get(f.kind, f"u{f.w}")
                if not oracle.field_valid(s.n, 'bits', rr, ty, f.arr[0] if f.arr else None, f.arr[1] if (f.arr and f.stride_explicit) else None):
                    raise B.MachineryError(f"generator: {wsname} contains a field that is invalid by the reference model: base u{s.n} {R.field_text(f)}")
        if s.has_builder and not oracle.builder_offered(s):
            raise B.MachineryError(f"generator: a struct of {wsname} expects a builder the reference model does not offer: {[f.ranges for f in s.fields]}")
    B.name_structs(structs, prefix=wsname.upper().replace('-', '_') + "_")
    dropped = []
    ws, ok, dt, diag = B.build_machine_set(wsname, structs, profile, dropped=dropped)
    chk.extra.setdefault("build_s", {})[f"{wsname}:{profile}"] = round(dt, 1)
    for s, msgs in dropped:
        # generated code for a declaration the reference model calls valid does not compile: a verdict for that declaration
        text = R.struct_decl(s)
        chk.add_violation(f"does not compile: {text}", "compile", f"generated code for a valid declaration is rejected by rustc: {text} :: {msgs[0]}",
                          {"engine": "regmc-build", "spec": R.spec_struct(s), "errors": msgs[:5]})
        chk.states += 1
        chk.transitions += 1
    chk.last_dropped = len(dropped)
    if dropped:
        chk.notes.append(f"{wsname}: {len(dropped)} declarations removed after rustc rejected their generated code; the remaining {len(structs) - len(dropped)} were explored")
    if not ok:
        chk.compile_violation("compile", wsname, profile, diag, len(structs))
        return None
    chk.programs += len(structs)
    return ws


def sweep_check(chk, wsname, structs, ops, profile, full_w=8, full_n=16, oob=False, kinds="", families=None, wall_cap=None, label=None):
    ws = build_set(chk, wsname, structs, profile)
    if ws is None:
        return None
    args = ['--ops', ops, '--full-w', full_w, '--full-n', full_n, '--oob', 1 if oob else 0]
    if kinds:
        args += ['--kinds', kinds]
    if families:
        args += ['--families', ",".join(families)]
    if wall_cap:
        args += ['--wall-cap', wall_cap]
    rep = B.run(ws, profile, 'sweep', args, out_name=f"report-{chk.pid}-{ops}-{profile}.json")
    chk.add_report(rep, label or f"{wsname}:{ops}:{profile}")
    if rep.get('fields', 0) == 0:
        core.vacuous(f"{wsname} produced no fields for {chk.pid}")
    return rep


def selfov_frame_check(chk, tier, prof, kinds=""):
    """range lists that name a bit twice: the macro accepts them and no property fixes the value they hold, but the set of bits such a
    field names is determined - writes must leave every other bit alone, must not panic, and set_ must agree with with_"""
    so = sets.selfoverlap_structs(tier)
    ws = build_set(chk, f"selfov-{tier}", so, prof)
    if ws is None:
        return
    args = ['--ops', 'all', '--full-n', 16, '--full-w', 8, '--panic-only', 1]
    if kinds:
        args += ['--kinds', kinds]
    rep = B.run(ws, prof, 'sweep', args, out_name=f"report-{chk.pid}-selfov-{prof}.json")
    chk.add_report(rep, f"sweep:selfoverlap:{prof}")
    chk.bounds.append("range lists naming a bit twice (accepted declarations, values undetermined): every write leaves the bits outside the named set unchanged, no panic, set_ == with_")


def c01(tier):
    chk = core.Check('C01', tier)
    prof = profile_for(tier)
    chk.assumptions = ASSUME_REGMC
    rep = sweep_check(chk, f"contig-{tier}", sets.contig_set(tier), 'get', prof, kinds='bun', full_n=24 if tier == 'thorough' else 16)
    chk.bounds.append("N<=16: every (lo,hi) x kind, all 2^N raw values; " +
                      ("wide bases BWq: CONTIGB+LADDER+EDGE families, state alphabet A(N)" if tier == 'quick'
                       else "every base 17..128 x every (lo,hi) x kind; all 2^N raw values for N<=24, A(N) above"))
    if tier == 'thorough':
        sweep_check(chk, "u32full", sets.u32_full_set(), 'get', 'fast', full_n=32, kinds='bun')
        chk.bounds.append("u32 base: all 2^32 raw values for the boundary + non-contiguous boundary families")
    acc = optional_accepted(chk, 'quick')
    if acc:
        sweep_check(chk, "optional-quick", acc, 'get', prof, full_w=8)
    if rep and rep.get('distinct_outcomes', 0) < rep.get('fields', 0):
        core.vacuous("fewer distinct getter results than fields")
    return chk.finish()


def c02(tier):
    chk = core.Check('C02', tier)
    prof = profile_for(tier)
    chk.assumptions = ASSUME_REGMC
    fw = 8 if tier == 'quick' else 16
    sweep_check(chk, f"contig-{tier}", sets.contig_set(tier), 'put', prof, full_w=fw, full_n=24 if tier == 'thorough' else 16, kinds='bun')
    chk.bounds.append(f"N<=16: every (lo,hi) x kind, all 2^N raw values x all 2^w field values for w<={fw} (alphabet AV(w) above); "
                      "with_ frame + read-back + set_ compared on every transition; " +
                      ("wide BWq: A(N) x AV(w)" if tier == 'quick' else "N 17..24: cross (all states x AV, A x all values); N>24: A(N) x AV(w)"))
    if tier == 'thorough':
        sweep_check(chk, "u32put", sets.u32_put_set(), 'put', 'fast', full_n=32)
        chk.bounds.append("u32 base: all 2^32 raw values x v in {0, all-ones} x {with_, set_} for 18 boundary fields (bool/u1 at 0,15,31; u3,u5; u8/i8 at 0,12,23,24; u15..u17; u31; full-width u32; byte-swap and top-bit lists)")
    # the statement covers every writable field: array and multi-range shapes too (shared builds with C03/C04; the quick sets in both tiers)
    sweep_check(chk, "arr-quick", sets.arr_set('quick'), 'put', prof, full_w=8)
    sweep_check(chk, "nc-quick", sets.nc_set('quick'), 'put', prof, full_w=8)
    chk.bounds.append("plus the quick ARR/ARRB/ARRBOOL and NC/NCARR/NCB families of C03/C04 (with_/set_ only)")
    acc = optional_accepted(chk, 'quick')
    if acc:
        sweep_check(chk, "optional-quick", acc, 'put', prof, full_w=8)
    selfov_frame_check(chk, tier, prof)
    return chk.finish()


def c03(tier):
    chk = core.Check('C03', tier)
    prof = profile_for(tier)
    chk.assumptions = ASSUME_REGMC
    fw = 8 if tier == 'quick' else 16
    sweep_check(chk, f"arr-{tier}", sets.arr_set(tier), 'all', prof, full_w=fw, oob=True)
    sweep_check(chk, f"nc-{tier}", sets.nc_set(tier), 'all', prof, full_w=fw, oob=True, families=['NCARR'])
    chk.bounds.append("arrays of multi-range elements (NCARR family, incl. lists not starting at bit 0 and interleaving elements)")
    selfov_frame_check(chk, tier, prof)
    # enum / Option<enum> / nested element types (shared build with C08)
    sweep_check(chk, f"custom-{tier}", sets.custom_set(tier), 'all', prof, full_w=fw, oob=True,
                families=['CUSTEXARR', 'CUSTOPTARR', 'CUSTNESTARR', 'CUSTEXNCARR', 'CUSTOPTNCARR', 'CUSTNESTNCARR'])
    chk.bounds.append("arrays whose elements are exhaustive enums, Option<enum> and nested bitfields (the array families of C08's set)")
    acc = optional_accepted(chk, tier)
    if acc:
        sweep_check(chk, f"optional-{tier}", acc, 'all', prof, full_w=fw, oob=True)
    chk.bounds.append("ARR(N) for N<=16: every (lo, w, stride>=w, K>=2) that fits x kind, every element index, out-of-range indices "
                      "{K, K+1, 2K, W, floor(usize::MAX/stride)+1, usize::MAX} on get/with_/set_; wide: ARRB boundary family, bool arrays of every K")
    return chk.finish()


def c04(tier):
    chk = core.Check('C04', tier)
    prof = profile_for(tier)
    chk.assumptions = ASSUME_REGMC
    sweep_check(chk, f"nc-{tier}", sets.nc_set(tier), 'all', prof, full_w=8 if tier == 'quick' else 16, oob=True)
    chk.bounds.append("ordered lists of pairwise-disjoint ranges: " + ("NC(8,2), NC(6,3), NC(4,*), NCARR, NCB" if tier == 'quick'
                      else "NC(8,k<=4), all 8! bit permutations of u8, NC(6,*), NC(16,2), NCARR for N<=16, NCB for every N"))
    return chk.finish()


def c05(tier):
    chk = core.Check('C05', tier)
    prof = profile_for(tier)
    chk.assumptions = ASSUME_REGMC
    fw = 8 if tier == 'quick' else 16
    sweep_check(chk, f"signed-{tier}", sets.signed_set(tier), 'all', prof, full_w=fw, full_n=24 if tier == 'thorough' else 16)
    # the signed members of the other families
    sweep_check(chk, f"contig-{tier}", sets.contig_set(tier), 'all', prof, full_w=fw, kinds='i')
    sweep_check(chk, f"arr-{tier}", sets.arr_set(tier), 'all', prof, full_w=fw, kinds='i')
    sweep_check(chk, f"nc-{tier}", sets.nc_set(tier), 'all', prof, full_w=fw, kinds='i')
    bs = sets.signed_builder_structs()
    wsb = build_set(chk, "signedbld", bs, prof)
    if wsb:
        chk.add_report(B.run(wsb, prof, 'builder', ['--full-w', 8, '--cap', 65536], out_name=f"report-C05-builder-{prof}.json"), f"builder:signed:{prof}")
    chk.bounds.append("signed fields written through the builder (arrays, scalars, multi-range; with and without default)")
    selfov_frame_check(chk, tier, prof, kinds='i')
    chk.bounds.append("iN fields: dedicated SIGNED machines (every position on N<=24, boundary positions above; arrays; multi-range) "
                      "plus the signed members of the CONTIG/ARR/NC families; all 2^8 patterns for i8 (thorough: all 2^16 for i16), AV otherwise")
    return chk.finish()


PROPS = {'C01': c01, 'C02': c02, 'C03': c03, 'C04': c04, 'C05': c05}


def c07(tier):
    chk = core.Check('C07', tier)
    prof = profile_for(tier)
    chk.assumptions = ASSUME_REGMC[:2] + ["the EnumMachine adapters translate variants to indices with a generated `match` (independent of the macro's conversions)"]
    eds = sets.enum_set(tier)
    ws, ok, dt, diag = B.build_enum_set(f"enum-{tier}", eds, prof)
    chk.extra.setdefault("build_s", {})[f"enum-{tier}:{prof}"] = round(dt, 1)
    if not ok:
        chk.compile_violation("compile", f"enum-{tier}", prof, diag, len(eds), key="enum set: bitenum declarations the model accepts, or their conversions, do not compile")
        return chk.finish()
    chk.programs += len(eds)
    rep = B.run(ws, prof, 'enum', ['--full-n', 16 if tier == 'quick' else 24], out_name=f"report-C07-{prof}.json")
    chk.add_report(rep, f"enum-{tier}:{prof}")
    # OPTIONAL spelling: `#[bitenum(exhaustive = x, uN)]` (arguments in the undocumented order): compiled one by one; accepted ones are explored
    import dataclasses
    from . import declmc as D
    opt = [dataclasses.replace(e, exh_first=True) for e in eds[::7] if not e.omit_exh]
    arts = D.carrier()
    items = [D.Item(j, R.enum_decl(e)) for j, e in enumerate(opt)]
    errs, unatt = D.compile_items(arts, items, "c07-optional", emit="metadata", nshards=16)
    if unatt:
        raise B.MachineryError(f"C07 optional enums: unattributed diagnostics: {unatt[:3]}")
    acc = [e for j, e in enumerate(opt) if j not in errs]
    chk.extra["optional_enum_spellings_probed"] = len(opt)
    chk.extra["optional_enum_spellings_accepted"] = len(acc)
    if acc:
        wso, ok, dt, diag = B.build_enum_set(f"enumopt-{tier}", acc, prof)
        if not ok:
            chk.compile_violation("compile", f"enumopt-{tier}", prof, diag, len(acc))
        else:
            chk.programs += len(acc)
            chk.add_report(B.run(wso, prof, 'enum', ['--full-n', 16], out_name=f"report-C07-opt-{prof}.json"), f"enumopt-{tier}:{prof}")
    chk.bounds.append(f"OPTIONAL: {len(opt)} of the enums again with `exhaustive` written before the storage type; the accepted ones are explored")
    chk.bounds.append("N<=3: every non-empty discriminant set in several declaration orders (all permutations for N<=2) x every accepted exhaustive form (=, :, omitted, conditional, conditional with cfg(any()) variants); "
                      "N=4: " + ("sizes <=2 and >=14" if tier == 'quick' else "all 65535 sets") + "; N 5..8: exhaustive (3 orders), full-1, singletons, {0,max}; every N in 9..=64: {max}, {0,max}, {0,1,2^(N-1),max}; "
                      "raw values: all 2^N for N<=" + ("16" if tier == 'quick' else "24") + ", boundary alphabet (disc +-1, 2^k, 2^k-1, walking bits) above")
    if rep['machines'] != len(eds):
        core.vacuous("enum machines missing")
    return chk.finish()


PROPS['C07'] = c07


def c06(tier):
    chk = core.Check('C06', tier)
    prof = profile_for(tier)
    chk.assumptions = ASSUME_REGMC[:3]
    structs = sets.consts_set(tier)
    ws = build_set(chk, f"consts-{tier}", structs, prof)
    if ws is None:
        return chk.finish()
    rep = B.run(ws, prof, 'consts', ['--full-n', 16 if tier == 'quick' else 24], out_name=f"report-C06-{prof}.json")
    chk.add_report(rep, f"consts-{tier}:{prof}")
    chk.bounds.append("every base u1..u128 x default forms {none, literal, named constant} x {=, :} x default values {0, 1, all-ones, 0xAA.., bits no field covers, top bit, nibble ramp}; "
                      "raw round trip over all 2^N values for N<=" + ("16" if tier == 'quick' else "24") + ", A(N) above; size_of/align_of vs smallest native integer; Copy by a compile-time bound")
    if tier == 'thorough':
        # all 2^32 raw values of the u32 / u31 / u25 bases
        s32 = [Struct(n, [Field([(0, 1)], 'b', family='CONST')], family='CONST') for n in (25, 31, 32)]
        ws2 = build_set(chk, "consts32", s32, 'fast')
        if ws2:
            rep = B.run(ws2, 'fast', 'consts', ['--full-n', 32], out_name="report-C06-32.json")
            chk.add_report(rep, "consts32:fast")
            chk.bounds.append("all 2^N raw values for the u25, u31, u32 bases")
    return chk.finish()


PROPS['C06'] = c06


def c08(tier):
    chk = core.Check('C08', tier)
    prof = profile_for(tier)
    chk.assumptions = ASSUME_REGMC + ["enum values are translated by generated `match` expressions; nested bitfields through their own new_with_raw_value/raw_value (C06's subject)"]
    fw = 8 if tier == 'quick' else 16
    sweep_check(chk, f"custom-{tier}", sets.custom_set(tier), 'all', prof, full_w=fw, oob=True)
    chk.bounds.append("field kinds: exhaustive enums (w<=" + ("4" if tier == 'quick' else "8") + "), Option<non-exhaustive enum> for w in {1..8,9,16,17,32,33,63,64}, nested bitfields for w in {1,3,4,8,12,16,24,32,64,100,128}; "
                      "placements: scalar at lo in {0,1,N-w} (incl. full-width), arrays (stride w, w+1), split over two ranges in both orders, multi-range arrays; "
                      "bases: every N<=16 with all 2^N states, " + ("BWq" if tier == 'quick' else "every N in 17..128") + " with A(N); written values: every variant / FULLV or AV inner raw values")
    return chk.finish()


PROPS['C08'] = c08


def c16(tier):
    chk = core.Check('C16', tier)
    chk.assumptions = ASSUME_REGMC + ["'any optimisation level' is covered as the pair {opt-level 0 + overflow checks + debug assertions, opt-level 3 without}; the thorough tier adds {opt-level 2 + overflow checks}"]
    fw = 8
    t = tier
    plan = [
        (f"contig-{t}", sets.contig_set, t, dict(ops='all', oob=False)),
        (f"arr-{t}", sets.arr_set, t, dict(ops='all', oob=True)),
        # the thorough non-contiguous set (5e12 transitions in the fast profile) is too large for the checked profile: both tiers use the quick one
        ("nc-quick", sets.nc_set, 'quick', dict(ops='all', oob=True)),
        (f"signed-{t}", sets.signed_set, t, dict(ops='all', oob=False)),
        (f"custom-{t}", sets.custom_set, t, dict(ops='all', oob=True)),
    ]
    profiles = ('checked', 'fast') if tier == 'quick' else ('checked', 'mid', 'fast')
    for wsname, mk, mt, kw in plan:
        reps = {}
        for prof in profiles:
            rep = sweep_check(chk, wsname, mk(mt), kw['ops'], prof, full_w=fw, full_n=16, oob=kw['oob'], label=f"{wsname}:{prof}")
            if rep is None:
                break
            reps[prof] = rep
        if len(reps) == len(profiles):
            a, b = reps['checked']['digests'], reps['fast']['digests']
            if set(a) != set(b):
                raise B.MachineryError("digest tables of the two profiles cover different machines")
            chk.validated += len(a)
            diff = [m for m in a if a[m] != b[m] or any(reps[p]['digests'].get(m) != a[m] for p in profiles)]
            chk.extra.setdefault("digest_pairs_compared", 0)
            chk.extra["digest_pairs_compared"] += len(a)
            heads = {ms['name']: ms['head'] for ms in json.load(open(os.path.join(B.WORK, wsname, "spec.json")))['machines']}
            for m in diff[:5]:
                key = f"profile divergence: {heads.get(m, m)}"
                chk.add_violation(key, "profile_divergence", f"{key}: observation digests differ between profiles checked ({a[m]}) and fast ({b[m]})",
                                  {"engine": "digest", "machine": m, "head": heads.get(m), "checked": a[m], "fast": b[m]})
    acc = beyond_accepted(chk, tier)
    if acc:
        reps = {}
        for prof in ('checked', 'fast'):
            wsb = build_set(chk, f"beyond-{tier}", acc, prof)
            if wsb:
                reps[prof] = B.run(wsb, prof, 'sweep', ['--ops', 'all', '--full-n', 16, '--full-w', 8, '--oob', 1], out_name=f"report-C16-beyond-{prof}.json")
                chk.add_report(reps[prof], f"sweep:beyond:{prof}")
        if len(reps) == 2:
            a, b = reps['checked']['digests'], reps['fast']['digests']
            for m in [m for m in a if a[m] != b.get(m)][:5]:
                chk.add_violation(f"profile divergence on an accepted out-of-range declaration: {m}", "profile_divergence",
                                  f"observation digests differ between profiles for {m}", {"engine": "digest", "machine": m})
    # range lists naming a bit twice: accepted declarations whose values no property determines - panics and profile agreement only
    so = sets.selfoverlap_structs(tier)
    reps = {}
    for prof in ('checked', 'fast'):
        wso = build_set(chk, f"selfov-{tier}", so, prof)
        if wso:
            reps[prof] = B.run(wso, prof, 'sweep', ['--ops', 'all', '--full-n', 16, '--full-w', 8, '--panic-only', 1], out_name=f"report-C16-selfov-{prof}.json")
            chk.add_report(reps[prof], f"sweep:selfoverlap:{prof}")
    if len(reps) == 2:
        a, b = reps['checked']['digests'], reps['fast']['digests']
        chk.extra["digest_pairs_compared"] = chk.extra.get("digest_pairs_compared", 0) + len(a)
        for m in [m for m in a if a[m] != b.get(m)][:5]:
            chk.add_violation(f"profile divergence on a self-overlapping range list: {m}", "profile_divergence",
                              f"observation digests differ between profiles for {m}", {"engine": "digest", "machine": m})
    # enums and constants in both profiles
    eds = sets.enum_set(t)
    for prof in ('checked', 'fast'):
        ws, ok, dt, diag = B.build_enum_set(f"enum-{t}", eds, prof)
        if ok:
            rep = B.run(ws, prof, 'enum', ['--full-n', 16], out_name=f"report-C16-enum-{prof}.json")
            chk.add_report(rep, f"enum-{t}:{prof}")
        else:
            chk.compile_violation("compile", f"enum-{t}", prof, diag, len(eds))
    # builder chains and constants in both profiles (no digests there: both runs must agree with the reference)
    bstructs = sets.builder_structs('quick')
    cstructs = sets.consts_set('quick')
    for prof in (('checked', 'fast') if tier == 'thorough' else ()):
        wsb = build_set(chk, "builder-c16", list(bstructs), prof)
        if wsb:
            chk.add_report(B.run(wsb, prof, 'builder', ['--full-w', 8, '--cap', 65536], out_name=f"report-C16-builder-{prof}.json"), f"builder:{prof}")
        wsc = build_set(chk, "consts-c16", list(cstructs), prof)
        if wsc:
            chk.add_report(B.run(wsc, prof, 'consts', ['--full-n', 16], out_name=f"report-C16-consts-{prof}.json"), f"consts:{prof}")
    chk.bounds.append("the machine sets of C01-C05, C07, C08 built twice (checked = opt 0 + overflow checks + debug assertions; fast = opt 3 without) and swept identically; "
                      "no Panicked observation except out-of-range indices; per-machine digests over the ordered observation stream equal across profiles; "
                      + ("the builder layouts of C13 and the constant/round-trip layouts of C06 are run in both profiles against the reference as well" if tier == 'thorough' else ""))
    return chk.finish()


PROPS['C16'] = c16


def product_run(chk, ws, prof, families, depth, values, full_n, props="", full_w=8, label=""):
    args = ['--depth', depth, '--values', values, '--full-n', full_n, '--full-w', full_w]
    if families:
        args += ['--families', ",".join(families)]
    if props:
        args += ['--props', props]
    rep = B.run(ws, prof, 'product', args, out_name=f"report-{chk.pid}-product-{label}-{prof}.json")
    if rep.get('extra', {}).get('nondeterministic'):
        raise B.MachineryError("a stateright discovery did not reproduce when re-explained: nondeterminism in the harness")
    pm = rep.get('extra', {}).pop('per_machine', [])
    chk.extra.setdefault('stateright_runs', []).extend(pm if len(pm) <= 40 else pm[:40])
    chk.add_report(rep, f"stateright:{label}:{prof}")
    return rep, pm


def _split_mix(structs, native):
    return [s for s in structs if (s.n in NATIVE) == native]


def c11(tier):
    chk = core.Check('C11', tier)
    prof = profile_for(tier)
    chk.assumptions = ASSUME_REGMC + ["derives users place on the struct (PartialEq/Hash/Debug) observe the storage integer: an object whose storage differs from its re-wrap counts as distinguishable"]
    structs = [s for s in sets.mix_set(tier) if s.n not in NATIVE]
    ws = build_set(chk, f"mixarb-{tier}", structs, prof)
    if ws is None:
        return chk.finish()
    # (a) hand sweeper: every non-native N<=16 to a fixed point (all states, all actions), strict storage
    rep = B.run(ws, prof, 'sweep', ['--ops', 'all', '--full-n', 16, '--full-w', 8 if tier == 'quick' else 16, '--strict-storage', 1, '--oob', 1],
                out_name=f"report-C11-sweep-{prof}.json")
    chk.add_report(rep, f"sweep:mixarb:{prof}")
    closed_sweep = rep.get('violation_count', 0) == 0 and rep['extra'].get('storage_bits_above_reference', 1) == 0 and rep.get('exhaustive')
    chk.extra['sweeper_fixed_point_closed'] = bool(closed_sweep)
    # (b) stateright fixed point for N<=12 (all states initial, no depth bound)
    rep2, pm = product_run_named(chk, ws, prof, [s.name for s in structs if s.n <= 12], depth=0, values='full', full_n=12, label="fixedpoint")
    for r in pm:
        if r['closed'] is False:
            chk.notes.append(f"fixed point NOT closed for {r['head']}: unique {r['unique_states']} of {r['initial_states']}")
    # (c) wide bases: BFS from A(N), depth 2 with the small argument alphabet (thorough: also depth 3 with core4)
    wide = [s.name for s in structs if s.n > 16]
    product_run_named(chk, ws, prof, wide, depth=2, values='small', full_n=0, label="wide-d2")
    if tier == 'thorough':
        product_run_named(chk, ws, prof, wide, depth=3, values='core4', full_n=0, label="wide-d3")
        product_run_named(chk, ws, prof, [s.name for s in structs if 12 < s.n <= 16], depth=0, values='small', full_n=16, label="fixedpoint16")
    # accepted declarations whose values no property fixes (range lists naming a bit twice): the register view must still hold -
    # no panic, nothing above bit N-1 that the re-wrapped object does not have
    so = [s for s in sets.selfoverlap_structs('thorough') if s.n not in NATIVE]
    wso = build_set(chk, "selfov-arb", so, prof)
    if wso:
        repso = B.run(wso, prof, 'sweep', ['--ops', 'all', '--full-n', 16, '--full-w', 8, '--strict-storage', 1, '--panic-only', 1], out_name=f"report-C11-selfov-{prof}.json")
        chk.add_report(repso, f"sweep:selfoverlap:{prof}")
    acc = [s for s in beyond_accepted(chk, tier) if s.n not in NATIVE]
    if acc:
        wsb = build_set(chk, f"beyond-{tier}", acc, prof)
        if wsb:
            repb = B.run(wsb, prof, 'sweep', ['--ops', 'all', '--full-n', 16, '--full-w', 8, '--strict-storage', 1], out_name=f"report-C11-beyond-{prof}.json")
            chk.add_report(repb, f"sweep:beyond:{prof}")
            product_run_named(chk, wsb, prof, [s.name for s in acc if s.n <= 12][:40], depth=0, values='full', full_n=12, label="beyond-fixedpoint")
    chk.closed = bool(closed_sweep) and all(r['closed'] is not False for r in pm)
    chk.bounds.append("every non-native N<=16: all 2^N states x all actions (w<=8 all values) to a fixed point with the hand sweeper (strict storage: object == its re-wrap); "
                      "stateright product machine: N<=12 fixed point (unique states must equal 2^N), " +
                      ("BWq" if tier == 'quick' else "every non-native N in 17..127") + " BFS from A(N) depth 2 with the small alphabet" +
                      (" and depth 3 with the 4-value core alphabet; N 13..16 fixed point" if tier == 'thorough' else ""))
    return chk.finish()


def product_run_named(chk, ws, prof, names, depth, values, full_n, label, props=""):
    """run the product mode on a subset of the machines of a workspace (sub-spec file)"""
    spec = json.load(open(os.path.join(ws, "spec.json")))
    sub = {"machines": [m for m in spec["machines"] if m["name"] in set(names)], "enums": []}
    sp = os.path.join(ws, f"spec-{label}.json")
    json.dump(sub, open(sp, "w"))
    out = os.path.join(ws, f"report-{chk.pid}-product-{label}-{prof}.json")
    args = [B.runner_path(ws, prof), 'product', '--spec', sp, '--out', out, '--depth', str(depth), '--values', values, '--full-n', str(full_n)]
    if props:
        args += ['--props', props]
    import subprocess
    p = subprocess.run(args, capture_output=True, text=True)
    if p.returncode != 0 or not os.path.exists(out):
        raise B.MachineryError(f"runner failed ({p.returncode}): {' '.join(args)}\n{p.stdout[-2000:]}\n{p.stderr[-3000:]}")
    rep = json.load(open(out))
    if rep.get('extra', {}).get('nondeterministic'):
        raise B.MachineryError("a stateright discovery did not reproduce when re-explained: nondeterminism in the harness")
    pm = rep.get('extra', {}).pop('per_machine', [])
    chk.extra.setdefault('stateright_runs', []).extend(pm[:12])
    chk.add_report(rep, f"stateright:{label}:{prof}")
    return rep, pm


def c12(tier):
    chk = core.Check('C12', tier)
    prof = profile_for(tier)
    chk.assumptions = ASSUME_REGMC + ["for N<=16 the invariant 'object == per-bit shadow' holds in every state and the state set is closed under every action, so histories of every length are covered by induction"]
    structs = sets.mix_set(tier)
    ws = build_set(chk, f"mix-{tier}", structs, prof)
    if ws is None:
        return chk.finish()
    rep = B.run(ws, prof, 'sweep', ['--ops', 'all', '--full-n', 16, '--full-w', 8 if tier == 'quick' else 16, '--oob', 1], out_name=f"report-C12-sweep-{prof}.json")
    chk.add_report(rep, f"sweep:mix:{prof}")
    closed_sweep = rep.get('violation_count', 0) == 0 and rep.get('exhaustive')
    acc = optional_accepted(chk, 'quick')
    if acc:
        sweep_check(chk, "optional-quick", acc, 'all', prof, full_w=8)
    selfov_frame_check(chk, tier, prof)
    P = "no_panic,raw_is_shadow,getters_are_shadow"
    rep2, pm = product_run_named(chk, ws, prof, [s.name for s in structs if s.n <= 12], depth=0, values='full', full_n=12, label="fixedpoint", props=P)
    # cross-check of the two engines on N<=12: both must have seen exactly 2^N states per machine
    for r in pm:
        if r['unique_states'] < (1 << r['n']) and rep2['violation_count'] == 0:
            raise B.MachineryError(f"stateright saw {r['unique_states']} states for {r['head']}, expected {1 << r['n']}")
        if r['unique_states'] > (1 << r['n']) and rep2['violation_count'] == 0:
            # objects that agree on raw_value() and on every getter but differ in the storage integer: state above bit N-1.
            # C12 speaks about the bits of the result and the getters, which agree with the reference here; C11 decides hidden state.
            chk.notes.append(f"{r['head']}: stateright distinguished {r['unique_states']} objects for {1 << r['n']} register values "
                             "(storage differs above bit N-1 while raw_value() and all getters agree with the reference; see C11)")
    wide = [s.name for s in structs if s.n > 16]
    product_run_named(chk, ws, prof, wide, depth=2, values='small', full_n=0, label="wide-d2", props=P)
    if tier == 'thorough':
        product_run_named(chk, ws, prof, wide, depth=3, values='core4', full_n=0, label="wide-d3", props=P)
        product_run_named(chk, ws, prof, [s.name for s in structs if 12 < s.n <= 16], depth=0, values='small', full_n=16, label="fixedpoint16", props=P)
    chk.closed = bool(closed_sweep) and all(r['closed'] is not False for r in pm)
    chk.bounds.append("mixed layouts with overlapping fields and overlapping array elements, one per base: N<=16 (native and arbitrary) all states x all actions to a fixed point (closure => histories of every length); "
                      "stateright: N<=12 fixed point, wide bases (" + ("BWq" if tier == 'quick' else "17..128") + ") BFS from A(N) depth 2 (small alphabet)" + (" + depth 3 (core4)" if tier == 'thorough' else "") +
                      "; builder chain as an action on the MIXB layouts")
    return chk.finish()


def c13(tier):
    chk = core.Check('C13', tier)
    prof = profile_for(tier)
    chk.assumptions = ASSUME_REGMC
    structs = sets.builder_structs(tier) + [s for s in sets.mix_set(tier) if s.has_builder]
    ws = build_set(chk, f"builder-{tier}", structs, prof)
    if ws is None:
        return chk.finish()
    rep = B.run(ws, prof, 'builder', ['--full-w', 8 if tier == 'quick' else 12, '--cap', 65536 if tier == 'quick' else 1 << 22], out_name=f"report-C13-{prof}.json")
    chk.add_report(rep, f"builder:{prof}")
    if rep['machines'] != len(structs) - chk.last_dropped:
        core.vacuous("builder machines missing")
    chk.bounds.append("builder layouts: all compositions of N<=" + ("8" if tier == 'quick' else "14") + " bits into 1-4 fields (several declaration orders; complete / with default / read-only part / uncovered gap), "
                      "arrays of every K for bool/u1/u2/u4 on u8/u16, K in {2,3,4,5,7,8,16,32,64,128} on wide bases, multi-range / interleaved / signed / enum / nested steps, arbitrary-int bases; "
                      "argument tuples: full product when <= cap, otherwise one factor at a time over 4 backgrounds; oracle = fold of with_ from DEFAULT/ZERO on the implementation and REG from the declared default")
    return chk.finish()


PROPS.update({'C11': c11, 'C12': c12, 'C13': c13})


def c19(tier):
    chk = core.Check('C19', tier)
    prof = profile_for(tier)
    chk.assumptions = ASSUME_REGMC[:3] + ["rustc's derive(Debug) on a twin plain struct (same name, declared field names and order, getter types) defines 'the standard struct format'"]
    structs = sets.debug_structs(tier)
    ws = build_set(chk, f"debug-{tier}", structs, prof)
    if ws is None:
        return chk.finish()
    rep = B.run(ws, prof, 'debug', ['--full-n', 12 if tier == 'quick' else 20], out_name=f"report-C19-{prof}.json")
    chk.add_report(rep, f"debug:{prof}")
    if rep['machines'] != len(structs) - chk.last_dropped:
        core.vacuous("debug machines missing")
    chk.bounds.append("debug layouts over bases " + ("{u3,u8,u12,u16,u24,u32,u64,u100,u128}" if tier == 'quick' else "u1..u20 and 12 wide bases") +
                      ": single fields of every kind (bool, uN, native, signed, exhaustive enum, Option<enum>, nested debug bitfield, multi-range), windows of 2-5 fields in three declaration orders, all kinds at once (both orders), "
                      "no fields; both {:?} and {:#?}; all 2^N raw values for N<=" + ("12" if tier == 'quick' else "16") + ", A(N) above; expected text = derive(Debug) twin filled from the reference register")
    return chk.finish()


PROPS['C19'] = c19


def c15(tier):
    chk = core.Check('C15', tier)
    chk.assumptions = ASSUME_REGMC[:3] + ["a `static` initialiser is a const context: every generated call inside it is evaluated by rustc's const evaluator; run-time arguments pass through black_box"]
    structs, eds = sets.const_set(tier)
    B.name_structs(structs, prefix=f"CONST_{tier.upper()}_")
    reps = {}
    for prof in (['checked'] if tier == 'quick' else ['checked', 'fast']):
        t0 = time.time()
        ws, ok, dt, diag = B.build_mixed_set(f"const-{tier}", structs, eds, prof, enum_ctab=True)
        chk.extra.setdefault("build_s", {})[f"const-{tier}:{prof}"] = round(dt, 1)
        if not ok:
            notconst = 'E0015' in diag
            chk.compile_violation("not_const" if notconst else "compile", f"const-{tier}", prof, diag, len(structs) + len(eds),
                                  key="const context: a generated operation cannot be evaluated at compile time" if notconst else None)
            return chk.finish()
        rep = B.run(ws, prof, 'consteval', [], out_name=f"report-C15-{prof}.json")
        chk.add_report(rep, f"consteval:{prof}")
        reps[prof] = rep
    chk.programs += len(structs) + len(eds)
    if reps['checked']['machines'] != len(structs) + len(eds):
        core.vacuous("const tables missing for some machines")
    chk.bounds.append("cross-section of " + str(len(structs)) + " layouts (mixed overlapping layouts and builder layouts for every N<=8 and " + ("7" if tier == 'quick' else "16") + " wide bases; enum/Option<enum>/nested fields; builder samples; "
                      "non-contiguous, array, signed samples; default forms) and " + str(len(eds)) + " bitenums: per layout compile-time tables for raw_value over all 2^N states (N<=8; A(N) above), every getter over all states, "
                      "every with_ over states x values (w<=4 all values), builder chains + build(), ZERO, DEFAULT, new(), both enum conversions; each entry compared with the same call executed at run time" +
                      (" in both profiles" if tier == 'thorough' else ""))
    return chk.finish()


PROPS['C15'] = c15


def beyond_accepted(chk, tier):
    """compile every BEYOND declaration on its own; return the structs rustc accepts (none on a tree where C09 holds)"""
    from . import declmc as D, oracle
    structs = sets.beyond_structs(tier)
    B.name_structs(structs, prefix="BEYOND_")
    for s in structs:
        f = s.fields[0]
        ranges = [(lo, lo + l - 1) for lo, l in f.ranges]
        ty = R.elem_ty(f)
        if oracle.field_valid(s.n, 'bits', ranges, ty, f.arr[0] if f.arr else None, f.arr[1] if (f.arr and f.stride_explicit) else None):
            raise B.MachineryError(f"generator: a BEYOND declaration is valid by the reference model: {R.struct_decl(s)}")
    arts = D.carrier()
    items = [D.Item(j, R.struct_decl(s)) for j, s in enumerate(structs)]
    errs, unatt = D.compile_items(arts, items, f"beyond-{chk.pid}", emit="metadata", nshards=16)
    if unatt:
        raise B.MachineryError(f"BEYOND: unattributed diagnostics: {unatt[:3]}")
    acc = [s for j, s in enumerate(structs) if j not in errs]
    # positions at or above bit 128 cannot be represented in the reference register: such declarations are only probed
    # for acceptance (C09 reports them), not explored
    chk.extra["beyond_declarations_accepted_total"] = len(acc)
    acc = [s for s in acc if s.fields[0].top() <= 128]
    chk.programs += len(structs)
    chk.transitions += len(structs)
    chk.validated += len(structs)
    chk.extra["beyond_declarations_probed"] = len(structs)
    chk.extra["beyond_declarations_accepted"] = len(acc)
    chk.bounds.append(f"BEYOND family: {len(structs)} declarations addressing bits at or above the declared width (bool/uN/iN at N, straddling N-1, arrays and range lists reaching N, beyond the storage) "
                      "are compiled; every one the compiler accepts is explored like a valid layout")
    return acc


def optional_accepted(chk, tier):
    """compile every OPTIONAL declaration on its own; return the structs rustc accepts"""
    from . import declmc as D
    structs = sets.optional_structs(tier)
    B.name_structs(structs, prefix="OPT_")
    arts = D.carrier()
    items = [D.Item(j, R.struct_decl(s)) for j, s in enumerate(structs)]
    errs, unatt = D.compile_items(arts, items, f"optional-{chk.pid}", emit="metadata", nshards=16)
    if unatt:
        raise B.MachineryError(f"OPTIONAL: unattributed diagnostics: {unatt[:3]}")
    acc = [s for j, s in enumerate(structs) if j not in errs]
    chk.programs += len(structs)
    chk.transitions += len(structs)
    chk.extra["optional_spellings_probed"] = len(structs)
    chk.extra["optional_spellings_accepted"] = len(acc)
    chk.bounds.append(f"OPTIONAL family: {len(structs)} array / scalar declarations whose attribute arguments come in another order than `range, access, stride` "
                      "(not promised by the documentation): each is compiled on its own; the accepted ones are explored like any other layout, the rejected ones are no finding")
    return acc
