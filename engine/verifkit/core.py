"""Check bookkeeping: accumulate engine reports, classify violations, write evidence and replays."""
import hashlib, json, os, sys, time
from . import build

ROOT = build.ROOT
EVIDENCE = os.environ.get("VERIF_EVIDENCE", os.path.join(ROOT, "evidence"))
REPLAYS = os.environ.get("VERIF_REPLAYS", os.path.join(ROOT, "replays"))
FINDINGS = os.path.join(ROOT, "known_findings.json")


def load_findings():
    try:
        return json.load(open(FINDINGS)).get("findings", [])
    except FileNotFoundError:
        return []


class Check:
    """One run of one property's check at one tier."""

    def __init__(self, pid, tier):
        self.pid = pid
        self.tier = tier
        self.t0 = time.time()
        self.seed = int(os.environ.get("VERIF_SEED", "0") or 0)
        self.states = 0
        self.transitions = 0
        self.validated = 0
        self.programs = 0
        self.distinct_outcomes = 0
        self.exhaustive = True
        self.closed = None
        self.caps = []
        self.samples = []
        self.per_family = {}
        self.bounds = []
        self.assumptions = []
        self.violations = []      # dicts: {key, what, detail, replay(dict)}
        self.notes = []
        self.extra = {}
        self.engines = []

    # ---- accumulation ------------------------------------------------------------------------
    def add_report(self, rep, label=""):
        """merge a regmc Report"""
        self.engines.append({"label": label, "mode": rep.get("mode"), "machines": rep.get("machines"), "fields": rep.get("fields"),
                             "states": rep.get("states"), "transitions": rep.get("transitions"), "compared": rep.get("compared"),
                             "violations": rep.get("violation_count"), "exhaustive": rep.get("exhaustive"),
                             "closed": rep.get("closed"), "wall_s": round(rep.get("wall_s", 0), 2)})
        self.states += rep.get("states", 0)
        self.transitions += rep.get("transitions", 0)
        self.validated += rep.get("compared", 0)
        self.distinct_outcomes += rep.get("distinct_outcomes", 0)
        if not rep.get("exhaustive", True):
            self.exhaustive = False
        if rep.get("closed") is not None:
            self.closed = rep["closed"] if self.closed is None else (self.closed and rep["closed"])
        self.caps += rep.get("caps_hit", [])
        for k, v in rep.get("per_family", {}).items():
            e = self.per_family.setdefault(k, {"fields": 0, "transitions": 0, "states": 0, "violations": 0})
            for kk in e:
                e[kk] += v.get(kk, 0)
        for s in rep.get("samples", []):
            if len(self.samples) < 8:
                self.samples.append(s)
        self.notes += rep.get("notes", [])
        for v in rep.get("violations", []):
            self.add_regmc_violation(v)
        # violations beyond the ones written out
        more = rep.get("violation_count", 0) - len(rep.get("violations", []))
        if more > 0:
            self.extra["violations_not_written_out"] = self.extra.get("violations_not_written_out", 0) + more

    def add_regmc_violation(self, v):
        decl = f"{v.get('head', '')} {{ {v.get('field_text', '')} }}"
        tr = "; ".join(fmt_step(s) for s in v.get("trace", []))
        key = f"{decl} :: {tr}"
        detail = f"{v['what']}: {decl} :: {tr} -> expected {fmt_expect(v['expect'])}, observed {v['observed']}"
        self.violations.append({"key": key, "what": v["what"], "detail": detail, "replay": {"engine": "regmc", "property": self.pid, "violation": v}})

    def add_violation(self, key, what, detail, replay):
        self.violations.append({"key": key, "what": what, "detail": detail, "replay": dict(replay, property=self.pid)})

    def compile_violation(self, what, wsname, profile, diag, nprog, key=None):
        """generated use-code for declarations the reference model calls valid does not compile: that is a verdict
        (API missing / ill-typed / declaration rejected / not const), not a machinery failure"""
        errs = [l for l in diag.splitlines() if 'error' in l][:10]
        key = key or f"{wsname}: generated code for valid declarations does not compile"
        self.add_violation(key, what, key + "\n  " + "\n  ".join(errs),
                           {"engine": "build", "workspace": wsname, "profile": profile, "diagnostics": diag[-6000:]})
        # what was explored here: the programs handed to the compiler, and its one verdict
        self.states += nprog
        self.transitions += 1
        self.sample({"workspace": wsname, "verdict": "generated crate rejected by rustc", "first_errors": errs[:3]})
        return errs

    def sample(self, s):
        if len(self.samples) < 8:
            self.samples.append(s)

    # ---- finishing ---------------------------------------------------------------------------
    def finish(self):
        os.makedirs(EVIDENCE, exist_ok=True)
        os.makedirs(REPLAYS, exist_ok=True)
        findings = load_findings()
        known = {f["key"]: f for f in findings if f.get("status") == "known" and f.get("property") == self.pid}
        new, known_hit = [], {}
        for v in self.violations:
            if v["key"] in known:
                known_hit[v["key"]] = known[v["key"]]
            else:
                new.append(v)
        lines = []
        for k, f in known_hit.items():
            lines.append(f"KNOWN-FINDING: property={self.pid} {f.get('what', k)}")
        written = 0
        seen_keys = set()
        for v in new:
            if v["key"] in seen_keys:
                continue
            seen_keys.add(v["key"])
            if written >= 10:
                break
            h = hashlib.sha1(v["key"].encode()).hexdigest()[:12]
            path = os.path.join(REPLAYS, f"{self.pid}-{h}.json")
            with open(path, "w") as fh:
                json.dump(v["replay"], fh, indent=1)
            lines.append(f"VIOLATION property={self.pid} replay={path}")
            lines.append(f"  {v['detail'][:600]}")
            written += 1
        nviol = len(new) + self.extra.get("violations_not_written_out", 0)
        wall = time.time() - self.t0
        if not self.samples:
            self.samples.append({"note": "no sample recorded"})
        ev = {
            "property_id": self.pid,
            "tier": self.tier,
            "seed": self.seed,
            "level": "model_checking",
            "coverage": {
                "states": int(self.states),
                "transitions": int(self.transitions),
                "traces_validated_against_impl": int(self.validated),
                "programs": int(self.programs),
                "samples": self.samples,
                "exhaustive": bool(self.exhaustive and not self.caps),
                "closed": self.closed,
                "distinct_outcomes": int(self.distinct_outcomes),
                "per_family": self.per_family,
                "bounds": self.bounds,
                "caps_hit": self.caps,
                "engines": self.engines,
                "known_findings_hit": len(known_hit),
                **self.extra,
            },
            "assumptions": self.assumptions,
            "wall_s": round(wall, 2),
            "violations": int(nviol),
            "notes": self.notes[:20],
            "repo": build.REPO,
        }
        validate_evidence(ev)
        with open(os.path.join(EVIDENCE, f"{self.pid}.json"), "w") as fh:
            json.dump(ev, fh, indent=1)
        for l in lines:
            print(l)
        print(f"{self.pid} {self.tier}: states={self.states} transitions={self.transitions} validated={self.validated} "
              f"programs={self.programs} exhaustive={ev['coverage']['exhaustive']} violations={nviol} known={len(known_hit)} wall={wall:.1f}s")
        return 1 if nviol else 0


def vacuous(msg):
    raise build.MachineryError("vacuous exploration: " + msg)


def fmt_step(s):
    op = s["op"]
    if op == "init":
        return f"new_with_raw_value({s['v']})"
    if op in ("with", "set", "set_probe"):
        return f"{op}(field {s['f']}, index {s['idx']}, {s['v']})"
    if op == "get":
        return f"get(field {s['f']}, index {s['idx']})"
    if op in ("from_raw",):
        return f"new_with_raw_value({s['v']})"
    if op == "to_raw":
        return f"variant#{s['f']}.raw_value()"
    if op == "build":
        return "builder(" + ", ".join(s.get("args", [])) + ").build()"
    return op + (f"[{s['f']}]" if op in ("default", "layout", "dbg") else "")


def fmt_expect(e):
    if e["kind"] == "value":
        return e["value"]
    if e["kind"] == "text":
        return repr(e["text"])
    return e["kind"]


_schema = None


def validate_evidence(ev):
    global _schema
    try:
        import jsonschema
    except ImportError:
        return
    if _schema is None:
        p = "/root/.vp/EVIDENCE.schema.json"
        if not os.path.exists(p):
            p = os.path.join(ROOT, "engine", "EVIDENCE.schema.json")
        if not os.path.exists(p):
            return
        _schema = json.load(open(p))
    jsonschema.validate(ev, _schema)
