"""./check replay <file>: re-execute a stored violation against the current tree, without the explorer."""
import json, os, sys
from . import build as B, rustgen as R


def replay_enum(rp):
    from types import SimpleNamespace
    v = rp["violation"]
    es = v["spec"]["py"]["enum"]
    ed = SimpleNamespace(name=es["name"], n=es["n"], exhaustive=es["exhaustive"], discs=[int(x, 16) for x in es["discs"]])
    src = R.SHARD_PRELUDE + es["text"] + "\n" + R.enum_adapter(ed) + "\npub fn machines() -> Vec<Box<dyn regmc::Machine>> { vec![] }\n" \
        + f"pub fn enums() -> Vec<Box<dyn regmc::EnumMachine>> {{ vec![Box::new(EM_{ed.name})] }}\n"
    ws = B.workspace("replay", [src], {"machines": [], "enums": [es]})
    ok, dt, diag = B.cargo_build(ws, "checked")
    if not ok:
        print("replay: the stored declaration no longer compiles:\n" + diag[-2000:])
        return 1
    tmp = os.path.join(ws, "violation.json")
    json.dump(v, open(tmp, "w"))
    rep = B.run(ws, "checked", "replay", ["--replay", tmp])
    print(f"replay: {es['text']}")
    for st in v["trace"]:
        print("   ", st)
    print(f"replay: expected {v['expect']}, observed {rep['extra'].get('observed')}")
    if rep["extra"].get("nondeterministic"):
        print("replay: NONDETERMINISTIC observations — machinery failure")
        return 2
    if rep["extra"].get("reproduces"):
        print(f"VIOLATION property={rp.get('property')} replay={rp.get('_path')}")
        return 1
    print("replay: does not reproduce on the current tree")
    return 0


def replay_regmc(rp):
    v = rp["violation"]
    if (v["spec"].get("py") or {}).get("enum"):
        return replay_enum(rp)
    s = R.struct_from_spec(v["spec"])
    ws, ok, dt, diag = B.build_machine_set("replay", [s], "checked")
    if not ok:
        print("replay: the stored declaration no longer compiles:\n" + diag[-2000:])
        return 1
    tmp = os.path.join(ws, "violation.json")
    json.dump(v, open(tmp, "w"))
    rep = B.run(ws, "checked", "replay", ["--replay", tmp])
    obs = rep["extra"].get("observed")
    if rep["extra"].get("nondeterministic"):
        print("replay: NONDETERMINISTIC observations — machinery failure")
        return 2
    print(f"replay: {v['head']} {{ {v['field_text']} }}")
    for st in v["trace"]:
        print("   ", st)
    print(f"replay: expected {v['expect']}, observed {obs}")
    if rep["extra"].get("reproduces"):
        print(f"VIOLATION property={rp.get('property')} replay={rp.get('_path')}")
        return 1
    print("replay: does not reproduce on the current tree")
    return 0


def main(args):
    if not args:
        print("usage: check replay <file>")
        return 2
    rp = json.load(open(args[0]))
    rp["_path"] = os.path.abspath(args[0])
    eng = rp.get("engine")
    if eng == "regmc":
        return replay_regmc(rp)
    if eng == "declmc":
        from . import declmc
        return declmc.replay(rp)
    if eng == "regmc-build":
        st = R.struct_from_spec(rp["spec"])
        ws, ok, dt, diag = B.build_machine_set("replay", [st], "checked")
        print("replay: " + R.struct_decl(st))
        if not ok:
            print("\n".join(l for l in diag.splitlines() if "error" in l)[:2000])
            print(f"VIOLATION property={rp.get('property')} replay={rp.get('_path')}")
            return 1
        print("replay: the declaration and its accessors compile on the current tree: does not reproduce")
        return 0
    if eng == "build":
        print("replay: build failure artefact; diagnostics:\n" + rp.get("diagnostics", "")[-3000:])
        return 1
    print("unknown replay engine", eng)
    return 2
