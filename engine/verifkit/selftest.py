"""./check selftest [name ...]: demonstrate detection.

For every property-breaking change under /verif/mutants (patch scripts) and /verif/seeded (patch.diff):
copy the repository to a scratch directory outside /repo and /verif, apply the change, run the repository's
own suite there (it must still pass), run the relevant quick checks against the copy (each must report a
VIOLATION), then delete the copy and its build output. Results go to /verif/selftest-results.json."""
import json, os, re, shutil, subprocess, sys, time
from . import build as B

SCRATCH = os.environ.get("VERIF_SELFTEST_DIR", "/tmp/verif-selftest")

# which checks are expected to catch which change (first = the property the change was written for)
EXPECT = {
    "c01": ["C01"], "c02_array_set_or": ["C02", "C03"], "c02_w64_mask17": ["C02"], "c03": ["C03"], "c04": ["C04"], "c05": ["C05"],
    "c06d": ["C06"], "c06e": ["C06"], "c06_default_debug": ["C06"], "c07": ["C07"], "c08": ["C08"], "c09": ["C09"], "c10": ["C10"], "c11": ["C09"], "c12": ["C12", "C02"],
    "c13": ["C13"], "c14": ["C14"], "c15": ["C15"], "c16_32": ["C16"], "c17": ["C17"], "c18": ["C18"], "c19b": ["C19"],
    "seed-C01": ["C01"], "seed-C02": ["C02", "C03", "C04"], "seed-C03": ["C03", "C02", "C04"], "seed-C04": ["C04", "C02", "C03"], "seed-C05": ["C05"],
    "seed-C06": ["C06"], "seed-C07": ["C07"], "seed-C08": ["C08"], "seed-C09": ["C09"], "seed-C10": ["C10"], "seed-C11": ["C11"],
    "seed-C12": ["C12", "C04"], "seed-C13": ["C13"], "seed-C14": ["C14"], "seed-C15": ["C15"], "seed-C16": ["C16", "C08"], "seed-C17": ["C17"],
    "seed-C18": ["C18"], "seed-C19": ["C19"],
    "seed-C01-b": ["C01"], "seed-C02-b": ["C02"], "seed-C03-b": ["C03"], "seed-C09-b": ["C09"], "seed-C12-b": ["C12", "C04"], "seed-C13-b": ["C13"],
    "seed-C14-b": ["C14"], "seed-C16-b": ["C16", "C03"],
    "seed-C05-c": ["C05"], "seed-C06-c": ["C06"], "seed-C07-c": ["C07"], "seed-C08-c": ["C08", "C03"], "seed-C10-c": ["C10"], "seed-C11-c": ["C11", "C03"],
    "seed-C15-c": ["C15"], "seed-C17-c": ["C17"], "seed-C18-c": ["C18"], "seed-C19-c": ["C19"],
    "seed-C01-d": ["C01"], "seed-C02-d": ["C02"], "seed-C03-d": ["C03"], "seed-C04-d": ["C04"], "seed-C06-d": ["C06"], "seed-C09-d": ["C09"],
    "seed-C12-d": ["C12", "C05"], "seed-C13-d": ["C13"], "seed-C14-d": ["C14"], "seed-C16-d": ["C16", "C05"],
    "seed-C05-e": ["C05"], "seed-C07-e": ["C07"], "seed-C08-e": ["C08"], "seed-C10-e": ["C10"], "seed-C11-e": ["C11", "C06"], "seed-C15-e": ["C15"],
    "seed-C17-e": ["C17"], "seed-C18-e": ["C18"], "seed-C19-e": ["C19"],
    "seed-C02-f": ["C02"], "seed-C08-f": ["C08"], "seed-C12-f": ["C12", "C02"], "seed-C13-f": ["C13"], "seed-C14-f": ["C14"], "seed-C17-f": ["C17"],
    "seed-C19-f": ["C19"],
    "seed-C01-g": ["C01"], "seed-C03-g": ["C03"], "seed-C04-g": ["C04"], "seed-C05-g": ["C05", "C13"], "seed-C07-g": ["C07"], "seed-C09-g": ["C09"],
    "seed-C10-g": ["C10"], "seed-C15-g": ["C15"], "seed-C16-g": ["C16", "C07"], "seed-C18-g": ["C18"],
    "seed-C02-h": ["C02", "C03"], "seed-C06-h": ["C06"], "seed-C08-h": ["C08"], "seed-C11-h": ["C11"], "seed-C12-h": ["C12", "C03"], "seed-C13-h": ["C13"],
    "seed-C14-h": ["C14"], "seed-C17-h": ["C17"], "seed-C19-h": ["C19"],
    "seed-C01-i": ["C01", "C03"], "seed-C03-i": ["C03"], "seed-C05-i": ["C05"], "seed-C07-i": ["C07"], "seed-C09-i": ["C09"], "seed-C10-i": ["C10"],
    "seed-C15-i": ["C15"], "seed-C16-i": ["C16", "C08"], "seed-C18-i": ["C18"],
    "seed-C02-j": ["C02", "C05"], "seed-C03-j": ["C03", "C05"], "seed-C05-j": ["C05"], "seed-C08-j": ["C08"], "seed-C11-j": ["C11"], "seed-C12-j": ["C12"],
    "seed-C13-j": ["C13"], "seed-C15-j": ["C15"], "seed-C16-j": ["C16", "C05"], "seed-C19-j": ["C19"],
    "seed-C02-k": ["C02"], "seed-C06-k": ["C18"], "seed-C07-k": ["C07"], "seed-C09-k": ["C18"], "seed-C10-k": ["C10"], "seed-C13-k": ["C13"], "seed-C14-k": ["C14"],
    "seed-C17-k": ["C17"], "seed-C18-k": ["C18"], "seed-C19-k": ["C19"],
    "seed-C01-l": ["C01"], "seed-C02-l": ["C02", "C05"], "seed-C03-l": ["C03"], "seed-C04-l": ["C04"], "seed-C05-l": ["C05", "C03"], "seed-C08-l": ["C08"],
    "seed-C12-l": ["C12", "C02"], "seed-C13-l": ["C13"], "seed-C16-l": ["C16", "C01"],
    "seed-C06-m": ["C06"], "seed-C07-m": ["C07"], "seed-C09-m": ["C09"], "seed-C10-m": ["C10"], "seed-C11-m": ["C11", "C02"], "seed-C14-m": ["C14"],
    "seed-C15-m": ["C15"], "seed-C17-m": ["C17", "C14"], "seed-C19-m": ["C19"],
    "seed-C01-n": ["C01"], "seed-C02-n": ["C02"], "seed-C03-n": ["C03"], "seed-C04-n": ["C04", "C05"], "seed-C05-n": ["C05"], "seed-C07-n": ["C07"],
    "seed-C08-n": ["C08", "C07"], "seed-C12-n": ["C12", "C02"], "seed-C13-n": ["C13"], "seed-C16-n": ["C16"],
    "seed-C01-o": ["C08"], "seed-C02-o": ["C02", "C04"], "seed-C03-o": ["C03"], "seed-C04-o": ["C04"], "seed-C05-o": ["C05"], "seed-C06-o": ["C06"],
    "seed-C02-p": ["C02"], "seed-C03-p": ["C03"], "seed-C05-p": ["C05"], "seed-C06-p": ["C06"], "seed-C09-p": ["C09"], "seed-C10-p": ["C10"],
    "seed-C12-p": ["C12", "C05", "C11"], "seed-C13-p": ["C13"], "seed-C14-p": ["C14", "C13"], "seed-C15-p": ["C15"], "seed-C16-p": ["C16"], "seed-C17-p": ["C17"],
    "seed-C18-p": ["C18", "C19"], "seed-C19-p": ["C19"],
    "seed-C01-q": ["C01"], "seed-C04-q": ["C04", "C05"], "seed-C07-q": ["C07"], "seed-C08-q": ["C08"], "seed-C09-q": ["C09"], "seed-C10-q": ["C07"],
    "seed-C11-q": ["C11"], "seed-C13-q": ["C13"], "seed-C14-q": ["C14"], "seed-C17-q": ["C17"], "seed-C18-q": ["C18"], "seed-C19-q": ["C19"],
    "seed-C01-r": ["C01"], "seed-C02-r": ["C02"], "seed-C03-r": ["C03"], "seed-C04-r": ["C04"], "seed-C05-r": ["C05"], "seed-C06-r": ["C06"], "seed-C08-r": ["C08"],
    "seed-C11-r": ["C11", "C06"], "seed-C12-r": ["C12"], "seed-C14-r": ["C14"], "seed-C15-r": ["C15", "C08"], "seed-C16-r": ["C16", "C04"], "seed-C17-r": ["C17"], "seed-C18-r": ["C18"],
    "seed-C01-t": ["C03"], "seed-C07-t": ["C07"], "seed-C08-t": ["C08"], "seed-C09a-t": ["C09"], "seed-C09b-t": ["C09"], "seed-C10a-t": ["C10"], "seed-C10b-t": ["C10"],
    "seed-C11-t": ["C11", "C09"], "seed-C14a-t": ["C14"], "seed-C14b-t": ["C14"], "seed-C17a-t": ["C17", "C02"], "seed-C17b-t": ["C17"],
    "seed-C09a-u": ["C09"], "seed-C09b-u": ["C09"], "seed-C10a-u": ["C10"], "seed-C10b-u": ["C10"], "seed-C14a-u": ["C14"], "seed-C14b-u": ["C14"], "seed-C17a-u": ["C17"],
    "seed-C17b-u": ["C17"], "seed-C18a-u": ["C18"], "seed-C18b-u": ["C18"], "seed-C19a-u": ["C19"], "seed-C19b-u": ["C19"],
    "seed-C02-v": ["C02", "C05"], "seed-C03-v": ["C03"], "seed-C04-v": ["C04"], "seed-C05-v": ["C05"], "seed-C06-v": ["C06"], "seed-C07-v": ["C07"], "seed-C08-v": ["C08", "C04"],
    "seed-C11-v": ["C11"], "seed-C12-v": ["C12", "C04"], "seed-C13-v": ["C13"], "seed-C15-v": ["C15", "C04"], "seed-C16-v": ["C16"],
    "seed-C02-w": ["C02"], "seed-C03-w": ["C03"], "seed-C05-w": ["C05"], "seed-C06-w": ["C06"], "seed-C07-w": ["C07"], "seed-C08-w": ["C04", "C16"], "seed-C11-w": ["C11", "C16"],
    "seed-C12-w": ["C12"], "seed-C13-w": ["C13"], "seed-C15-w": ["C15"], "seed-C16-w": ["C16"], "seed-C19-w": ["C19"],
    "seed-C02-s": ["C02"], "seed-C03-s": ["C03"], "seed-C05-s": ["C05"], "seed-C06-s": ["C06"], "seed-C09-s": ["C09"], "seed-C10-s": ["C10"], "seed-C12-s": ["C12", "C04"],
    "seed-C13-s": ["C13"], "seed-C14-s": ["C14"], "seed-C16-s": ["C16", "C01"], "seed-C17-s": ["C17"], "seed-C18-s": ["C18"], "seed-C19-s": ["C19"],
    "seed-C01-x": ["C01"], "seed-C02-x": ["C02"], "seed-C04-x": ["C04"], "seed-C05-x": ["C05"], "seed-C09-x": ["C09"], "seed-C10-x": ["C07"], "seed-C12-x": ["C12", "C04"],
    "seed-C13-x": ["C13"], "seed-C14-x": ["C14", "C13"], "seed-C16-x": ["C16", "C08"], "seed-C17-x": ["C17"], "seed-C19-x": ["C19"],
    "seed-C06-y": ["C06"], "seed-C07-y": ["C07"], "seed-C09-y": ["C09", "C06"], "seed-C10-y": ["C10"], "seed-C13-y": ["C13"], "seed-C14-y": ["C14"], "seed-C15-y": ["C15", "C06"],
    "seed-C17-y": ["C17"], "seed-C18-y": ["C18"], "seed-C19-y": ["C19", "C06"],
    "seed-C07-o": ["C07"], "seed-C08-o": ["C08"], "seed-C10-o": ["C10"], "seed-C11-o": ["C11"], "seed-C13-o": ["C13"], "seed-C16-o": ["C16"], "seed-C19-o": ["C19"],
}


def sh(cmd, cwd=None, env=None, timeout=3600):
    p = subprocess.run(cmd, cwd=cwd, env=env, capture_output=True, text=True, timeout=timeout, shell=isinstance(cmd, str))
    return p.returncode, p.stdout + p.stderr


# seeded changes that no check reports, by design (see DESIGN.md 13.4)
NOT_DETECTED_BY_DESIGN = {"seed-C04-i", "seed-C15-s"}


def changes():
    out = []
    mdir = os.path.join(B.ROOT, "mutants")
    for f in sorted(os.listdir(mdir)):
        if f.endswith(".py") and f != "common.py":
            out.append((f[:-3], "script", os.path.join(mdir, f)))
    sdir = os.path.join(B.ROOT, "seeded")
    if os.path.isdir(sdir):
        for d in sorted(os.listdir(sdir)):
            p = os.path.join(sdir, d, "patch.diff")
            if os.path.exists(p):
                out.append((f"seed-{d}", "diff", p))
    return out


def run_parallel(args, jobs):
    """split the list of changes over `jobs` worker processes, each with its own scratch directory, and merge their results"""
    rest = [a for a in args if not a.startswith("--jobs")]
    procs = []
    for i in range(jobs):
        out = os.path.join("/tmp", f"verif-selftest-{os.getpid()}-part{i}.json")
        if os.path.exists(out):
            os.remove(out)
        env = dict(os.environ, VERIF_SELFTEST_DIR=f"{SCRATCH}-{os.getpid()}-{i}")
        procs.append((out, subprocess.Popen([sys.executable, os.path.join(B.ENGINE, "check.py"), "selftest", f"--part={i}/{jobs}", f"--out={out}"] + rest, env=env)))
    results, ok_all = [], True
    for out, pr in procs:
        rc = pr.wait()
        if rc not in (0, 1) or not os.path.exists(out):
            print(f"selftest worker failed (exit {rc})")
            return 2
        d = json.load(open(out))
        results += d["results"]
        ok_all = ok_all and d["all_detected"]
        os.remove(out)
    order = {name: k for k, (name, _, _) in enumerate(changes())}
    if "--merge" in args:
        # keep the rows of changes that were not re-run now
        try:
            old = json.load(open(os.path.join(B.ROOT, "selftest-results.json")))["results"]
        except Exception:
            old = []
        done = {r["change"] for r in results}
        results += [r for r in old if r["change"] not in done and r["change"] in order]
        ok_all = all((r.get("not_detected_by_design") or (r.get("checks") and all(c["exit"] == 1 and c["violation_lines"] for c in r["checks"].values())))
                     for r in results if r.get("applies", True)) and all(r.get("applies", True) for r in results)
    results.sort(key=lambda r: order.get(r["change"], 1 << 30))
    with open(os.path.join(B.ROOT, "selftest-results.json"), "w") as fh:
        json.dump({"results": results, "all_detected": ok_all}, fh, indent=1)
    print("selftest:", "all changes detected" if ok_all else "SOME CHANGES NOT DETECTED")
    return 0 if ok_all else 1


def main(args):
    jobs = [a for a in args if a.startswith("--jobs=")]
    if jobs:
        return run_parallel(args, int(jobs[0].split("=")[1]))
    only = set(a for a in args if not a.startswith("--"))
    skip_suite = "--skip-suite" in args
    part = [a for a in args if a.startswith("--part=")]
    part = tuple(int(x) for x in part[0].split("=")[1].split("/")) if part else None
    outp = [a for a in args if a.startswith("--out=")]
    outp = outp[0].split("=", 1)[1] if outp else os.path.join(B.ROOT, "selftest-results.json")
    repo_src = "/repo"
    os.makedirs(SCRATCH, exist_ok=True)
    results = []
    env = dict(os.environ)
    env.update({"VERIF_WORK": os.path.join(SCRATCH, "work"), "VERIF_TARGET": os.path.join(SCRATCH, "target"), "VERIF_NOLOCK": "1", "VERIF_EVIDENCE": os.path.join(SCRATCH, "evidence"), "VERIF_REPLAYS": os.path.join(SCRATCH, "replays"),
                "CARGO_NET_OFFLINE": "true"})
    ok_all = True
    for k, (name, kind, path) in enumerate(changes()):
        if only and name not in only:
            continue
        if part and k % part[1] != part[0]:
            continue
        t0 = time.time()
        copy = os.path.join(SCRATCH, "repo")
        shutil.rmtree(copy, ignore_errors=True)
        rc, out = sh(["git", "clone", "-q", "--no-hardlinks", repo_src, copy])
        if rc != 0:
            print(out)
            return 2
        if kind == "script":
            rc, out = sh([sys.executable, path], cwd=copy, env=dict(env, PYTHONPATH=os.path.join(B.ROOT, "mutants")))
        else:
            rc, out = sh(["git", "apply", path], cwd=copy)
        if rc != 0:
            print(f"{name}: change does not apply: {out[-300:]}")
            results.append({"change": name, "applies": False})
            ok_all = False
            continue
        suite = "skipped"
        if not skip_suite:
            rc, out = sh("cargo test --workspace --offline 2>&1", cwd=copy, env=dict(env, CARGO_TARGET_DIR=os.path.join(SCRATCH, "repo-target")))
            m = re.search(r"test result: (\w+)\. (\d+) passed; (\d+) failed", "\n".join(l for l in out.splitlines() if "128 passed" in l or "FAILED" in l) or out)
            suite = "128 passed" if "test result: ok. 128 passed; 0 failed" in out else "SUITE FAILS"
        row = {"change": name, "applies": True, "repo_suite": suite, "checks": {}}
        if name in NOT_DETECTED_BY_DESIGN:
            row["not_detected_by_design"] = True
        for pid in EXPECT.get(name, []):
            rc, out = sh([os.path.join(B.ROOT, "check"), pid, "quick"], env=dict(env, VERIF_REPO=copy))
            viol = [l for l in out.splitlines() if l.startswith("VIOLATION")]
            detail = [l.strip() for l in out.splitlines() if l.startswith("  ")][:1]
            row["checks"][pid] = {"exit": rc, "violation_lines": len(viol), "first": (detail[0][:300] if detail else "")}
            if rc != 1 or not viol:
                ok_all = False
        row["wall_s"] = round(time.time() - t0, 1)
        results.append(row)
        print(json.dumps(row))
        sys.stdout.flush()
        shutil.rmtree(copy, ignore_errors=True)
    # restore: evidence files were rewritten by runs against the scratch copy; they are regenerated by the next real run
    shutil.rmtree(SCRATCH, ignore_errors=True)
    with open(outp, "w") as fh:
        json.dump({"results": results, "all_detected": ok_all}, fh, indent=1)
    print("selftest:", "all changes detected" if ok_all else "SOME CHANGES NOT DETECTED")
    return 0 if ok_all else 1
