"""Layout alphabets (DESIGN.md section 3): deterministic enumerators of fields / structs."""
import itertools
from .model import *

BW_QUICK = (17, 24, 31, 32, 33, 48, 63, 64, 65, 96, 127, 128)


def wide_bases(tier):
    return list(BW_QUICK) if tier == 'quick' else list(range(17, 129))


def kinds_for(w):
    if w == 1:
        return ['b', 'u']
    if w in NATIVE:
        return ['n', 'i']
    return ['u']


def P(n):
    W = storage(n)
    pts = {0, 1, 7, 8, 9, 15, 16, 17, 24, 31, 32, 33, 56, 63, 64, 65, W // 2 - 1, W // 2, n - 9, n - 8, n - 2, n - 1}
    return sorted(p for p in pts if 0 <= p < n)


def contig(n, fam='CONTIG'):
    out = []
    for lo in range(n):
        for hi in range(lo, n):
            w = hi - lo + 1
            for k in kinds_for(w):
                out.append(Field([(lo, w)], k, family=fam, qualified=(k == 'u' and (lo + 2 * hi) % 7 == 3),
                                 form=('list1' if (3 * lo + hi) % 11 == 5 else 'auto')))
    return out


def contig_boundary(n, fam='CONTIGB'):
    out = []
    seen = set()

    def add(lo, w, k):
        if lo < 0 or w < 1 or lo + w > n:
            return
        if (lo, w, k) in seen:
            return
        seen.add((lo, w, k))
        out.append(Field([(lo, w)], k, family=fam))

    pts = P(n)
    for lo in pts:
        for hi in pts:
            if hi >= lo:
                for k in kinds_for(hi - lo + 1):
                    add(lo, hi - lo + 1, k)
    for w in NATIVE:
        if w <= n:
            los = {0, 1, n - w - 1, n - w}
            for p in pts:
                los.add(p)            # native field starting at p
                los.add(p - w + 1)    # native field ending at p
            for lo in sorted(los):
                for k in ('n', 'i'):
                    add(lo, w, k)
    for k in kinds_for(n):
        add(0, n, k)
    return out


def ladder(n, fam='LADDER'):
    out = []
    for w in range(1, n + 1):
        for lo in {0, n - w}:
            for k in kinds_for(w):
                out.append(Field([(lo, w)], k, family=fam))
    return out


def edge(n, fam='EDGE'):
    out = []
    for p in range(n):
        out.append(Field([(p, 1)], 'b', family=fam))
        if p + 3 <= n:
            out.append(Field([(p, 3)], 'u', family=fam))
        if p - 4 >= 0:
            out.append(Field([(p - 4, 5)], 'u', family=fam))
    return out


def arrays_full(n, fam='ARR'):
    """every (lo, w, stride >= w, K >= 2) that fits, x kinds; stride explicit and (when stride == w) omitted"""
    out = []
    for lo in range(n):
        for w in range(1, n - lo + 1):
            for stride in range(w, n + 1):
                kmax = (n - lo - w) // stride + 1
                for K in range(2, kmax + 1):
                    for k in kinds_for(w):
                        out.append(Field([(lo, w)], k, arr=(K, stride), family=fam, stride_explicit=True))
                        if stride == w:
                            out.append(Field([(lo, w)], k, arr=(K, stride), family=fam, stride_explicit=False))
    return out


def arrays_boundary(n, fam='ARRB'):
    out = []
    seen = set()
    for w in (1, 2, 3, 7, 8, 9, 16, 32, 64):
        for lo in (0, 1, 5, 8, 16, 24):             # also byte-aligned starts other than 0
            for stride in (w, w + 1, w + 7, 2 * w):
                if lo + w > n:
                    continue
                kmax = (n - lo - w) // stride + 1
                for K in sorted({2, 3, kmax - 1, kmax}):
                    if 2 <= K <= kmax:
                        for k in kinds_for(w):
                            key = (w, lo, stride, K, k)
                            if key in seen:
                                continue
                            seen.add(key)
                            expl = not (stride == w and (lo + K) % 2 == 0)
                            out.append(Field([(lo, w)], k, arr=(K, stride), family=fam, stride_explicit=expl,
                                             stride_sep=':' if (K + lo) % 3 == 0 and expl else '='))
    return out


def bool_arrays(n, fam='ARRBOOL'):
    """bool / u1 arrays of every K up to n"""
    out = []
    for K in range(2, n + 1):
        out.append(Field([(0, 1)], 'b', arr=(K, 1), family=fam, stride_explicit=(K % 2 == 0)))
        if n - K >= 0 and K % 7 == 0:
            out.append(Field([(n - K, 1)], 'u', arr=(K, 1), family=fam))
    return out


def disjoint_lists(n, k):
    """every ordered list of k pairwise-disjoint ranges over n bits"""
    ranges = [(lo, l) for lo in range(n) for l in range(1, n - lo + 1)]
    res = []

    def rec(cur, m):
        if len(cur) == k:
            res.append(list(cur))
            return
        for lo, l in ranges:
            b = mask(l) << lo
            if m & b:
                continue
            cur.append((lo, l))
            rec(cur, m | b)
            cur.pop()

    rec([], 0)
    return res


def kinds_multi(w):
    if w in NATIVE:
        return ['n', 'i']
    return ['u']


def noncontig(n, ks, fam='NC'):
    out = []
    for k in ks:
        for rl in disjoint_lists(n, k):
            w = sum(l for _, l in rl)
            for kd in kinds_multi(w):
                out.append(Field(rl, kd, family=f"{fam}{k}"))
    return out


def bit_permutations(n, fam='NCPERM'):
    out = []
    for perm in itertools.permutations(range(n)):
        rl = [(p, 1) for p in perm]
        for kd in kinds_multi(n):
            out.append(Field(rl, kd, family=fam))
    return out


def noncontig_boundary(n, fam='NCB'):
    W = storage(n)
    out = []

    def add(rl, kinds=None):
        m = 0
        for lo, l in rl:
            if lo < 0 or l < 1 or lo + l > n:
                return
            b = mask(l) << lo
            if m & b:
                return
            m |= b
        w = sum(l for _, l in rl)
        if w > 128:
            return
        for kd in (kinds or kinds_multi(w)):
            out.append(Field(list(rl), kd, family=fam))

    if n >= 16:
        add([(n - 8, 8), (0, 8)])                       # byte swap ends
        add([(8, 8), (0, 8)])                            # low byte swap
        add([(n - 16, 8), (n - 8, 8)])
    if n >= 32:
        add([(n - 16, 16), (0, 16)])                     # half swap
        add([(0, 16), (n - 16, 16)])
        add([(24, 8), (16, 8), (8, 8), (0, 8)])          # full byte reversal of low word
    if n >= 64:
        add([(n - 32, 32), (0, 32)])
        add([(32, 32), (0, 32)])
    if n == 128:
        add([(64, 64), (0, 64)])
    add([(n - 1, 1), (0, 7)])                            # top bit + low run
    add([(n - 1, 1), (0, 7), (8, 8)])
    add([(0, 7), (n - 1, 1)])
    add([(7 - i, 1) for i in range(8)])                  # bit reversal low byte
    if n >= 16:
        add([(n - 1 - i, 1) for i in range(8)])          # bit reversal high byte
    if n >= 32:
        # RISC-V immediates of the README (B-type, J-type style)
        add([(8, 4), (25, 6), (7, 1), (31, 1)])
        add([(21, 10), (20, 1), (12, 8), (31, 1)])
    h = W // 2
    three = [(0, 2), (h if h + 3 <= n else max(2, n // 2), 3), (n - 3, 3)]
    for perm in itertools.permutations(three):
        add(list(perm))
    # fields wider than 64 bits whose pieces cross bit 64 of the *gathered value* (not only of the register)
    if n >= 90:
        add([(0, 40), (64 if n >= 104 else n - 40, 40)])                  # u80: second piece holds value bits 40..79
        add([(8, 60), (n - 20, 20)])                                      # u80: first piece ends at value bit 59, second crosses 64
        add([(n - 30, 30), (0, 50)])                                      # u80: second piece crosses value bit 64
        add([(0, 63), (n - 2, 2)])                                        # u65
        add([(0, 32), (40, 31), (n - 10, 10)])                            # u73: third piece starts at value bit 63
        add([(n - 10, 10), (40, 31), (0, 32)])
    if n == 128:
        add([(64, 64), (0, 64)], kinds=['n', 'i'])
        add([(1, 63), (64, 64), (0, 1)], kinds=['n', 'i'])                # pieces of a u128 value crossing bit 64 off the byte grid
        add([(100, 28), (0, 100)], kinds=['n'])
    # lists that cover the whole base (on native bases: the whole storage integer) and permute it, the first range starting at bit 0
    if n >= 8 and n % 4 == 0:
        q = n // 4
        add([(0, q), (3 * q, q), (2 * q, q), (q, q)])
        add([(0, 2 * q), (3 * q, q), (2 * q, q)])
        add([(0, 1), (2, n - 2), (1, 1)])
        add([(0, q), (2 * q, 2 * q), (q, q)])
    # many pieces: more than 8 / 16 / 32 / 64 ranges in one list
    for k in (9, 10, 12, 16, 17, 32, 33, 64, 65, 128):
        if k <= n:
            add([(k - 1 - i, 1) for i in range(k)])                       # reversal of the low k bits
        if 2 * k - 1 <= n:
            add([(2 * i, 1) for i in range(k)])                           # every other bit
        if k < n:
            add([(n - k + i, 1) for i in range(k)])                       # the top k bits named one by one
    if n >= 18:
        add([(16 - 2 * i, 2) for i in range(9)])                          # nine 2-bit pieces, descending
        add([(2 * i, 2) for i in (0, 2, 4, 6, 8, 1, 3, 5, 7)])
    if n >= 40:
        add([(36 - 4 * i, 3) for i in range(10)] + [(39, 1)])             # eleven pieces of mixed widths
    # wide pieces straddling the 64-bit line
    if n > 70:
        add([(60, 8), (0, 8)])
        add([(0, 8), (60, 8)])
        add([(n - 5, 5), (62, 4), (3, 7)])
    return out


NCARR_LISTS = None


def ncarr(n, quick=True, fam='NCARR'):
    """arrays of multi-range elements, including element lists that do not start at bit 0 and
    interleaving elements (stride smaller than the element's span)"""
    out = []
    lists = [rl for rl in disjoint_lists(4, 2)] + [[(0, 1), (2, 1), (4, 1), (6, 1)], [(1, 1), (3, 1), (5, 1), (7, 1)],
                                                    [(4, 2), (8, 2)], [(8, 2), (4, 2)], [(2, 3), (9, 1)], [(5, 1), (1, 2)]]
    if n >= 32:
        lists += [[(4, 2), (8, 2)], [(1, 8), (12, 8)], [(12, 8), (1, 8)], [(3, 4), (16, 4)]]
    if n >= 20:
        # elements made of more than 8 pieces (interleaving with stride 1, side by side with stride = span)
        lists += [[(2 * i, 1) for i in range(9)], [(16 - 2 * i, 1) for i in range(9)], [(i, 1) for i in reversed(range(10))]]
    seen = set()
    for rl in lists:
        w = sum(l for _, l in rl)
        span_hi = max(lo + l for lo, l in rl)
        m0 = 0
        for lo, l in rl:
            m0 |= mask(l) << lo
        for stride in sorted({1, 2, w, w + 3, span_hi, span_hi + 1, 8, 16}):
            kmax = (n - span_hi) // stride + 1
            for K in sorted({2, 3, kmax}):
                if K < 2 or K > kmax:
                    continue
                # elements must not overlap each other (C04: lists naming a bit twice are outside)
                m, ok = 0, True
                for i in range(K):
                    b = m0 << (i * stride)
                    if m & b:
                        ok = False
                        break
                    m |= b
                if not ok:
                    continue
                key = (tuple(rl), stride, K)
                if key in seen:
                    continue
                seen.add(key)
                for kd in kinds_multi(w):
                    out.append(Field(list(rl), kd, arr=(K, stride), family=fam,
                                     stride_sep=':' if (stride + K) % 4 == 0 else '='))
    return out


def signed_dedicated(n, fam='SIGNED'):
    out = []
    for w in (8, 16, 32, 64, 128):
        if w > n:
            continue
        los = range(0, n - w + 1) if n <= 24 else sorted({0, 1, 7, 8, 9, 31, 32, 33, 63, 64, n - w - 2, n - w - 1, n - w} & set(range(0, n - w + 1)))
        for lo in los:
            out.append(Field([(lo, w)], 'i', family=fam))
        # arrays
        for stride in (w, w + 1, w + 5):
            kmax = (n - w) // stride + 1
            for K in sorted({2, kmax}):
                if 2 <= K <= kmax:
                    out.append(Field([(0, w)], 'i', arr=(K, stride), family=fam + 'ARR'))
                    if n - (K - 1) * stride - w >= 1:
                        out.append(Field([(1, w)], 'i', arr=(K, stride), family=fam + 'ARR'))
        # multi-range signed: nibble swap / byte swap / split around a gap
        h = w // 2
        if w + 1 <= n:
            out.append(Field([(h, h), (0, h)], 'i', family=fam + 'NC'))
            out.append(Field([(0, h), (h + 1, h)], 'i', family=fam + 'NC'))
            out.append(Field([(n - h, h), (0, h)], 'i', family=fam + 'NC'))
            out.append(Field([(n - 1, 1), (0, w - 1)], 'i', family=fam + 'NC'))
    return out


def pack(n, fields, family, per=60, passes=None, options=True, **kw):
    """pack fields into structs of at most `per` fields. With options=True the struct-level options rotate over the structs
    (none / default / debug / default + debug) so that every accessor shape is also generated next to them; `debug` only
    where every field is a readable scalar."""
    structs = []
    for k, c in enumerate(range(0, len(fields), per)):
        fs = [Field(**{**f.__dict__}) for f in fields[c:c + per]]
        for j, f in enumerate(fs):
            f.name = ''
            # every fifth field carries doc comments (they are forwarded to the generated accessors and builder steps)
            f.doc = ((j + k) % 5 == 3)
        extra = dict(kw)
        if options and 'default' not in extra and 'debug' not in extra:
            opt = k % 4
            can_debug = all(f.readable and not f.arr for f in fs)
            if opt in (1, 3):
                extra['default'] = mask(n) & 0xA5A5A5A5A5A5A5A5A5A5A5A5A5A5A5A5
                extra['default_form'] = 'const' if k % 8 >= 4 else 'lit'
            if opt in (2, 3) and can_debug:
                extra['debug'] = True
                extra['debug_first'] = (k % 8 >= 4)      # `bitfield(uN, debug, default = x)` as well as `(uN, default = x, debug)`
            # user derives are passed through by the macro
            d = k % 3
            if d == 1:
                extra['derives'] = '#[derive(PartialEq, Eq)]'
            elif d == 2 and not extra.get('debug'):
                extra['derives'] = '#[derive(Debug, PartialEq)]' if all(f.kind in 'bunieo' for f in fs) else '#[derive(PartialEq)]'
            if k % 7 == 5:
                extra['derives'] = (extra.get('derives', '') + ' #[allow(dead_code)] #[cfg(all())]').strip()
        structs.append(Struct(n, fs, family=family, passes=list(passes or []), **extra))
    return structs
