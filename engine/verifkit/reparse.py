"""Independent re-parse of the generated declaration text (regex based, shares no code with rustgen):
the layout the reference register is told about must be the layout the macro is shown."""
import re
from .model import NATIVE


def split_top(s):
    out, depth, cur = [], 0, ''
    for ch in s:
        if ch in '[(':
            depth += 1
        elif ch in '])':
            depth -= 1
        if ch == ',' and depth == 0:
            out.append(cur.strip())
            cur = ''
        else:
            cur += ch
    if cur.strip():
        out.append(cur.strip())
    return out


def parse_range(t):
    t = t.strip()
    m = re.fullmatch(r'(\d+)\s*\.\.=\s*(\d+)', t)
    if m:
        lo, hi = int(m.group(1)), int(m.group(2))
        return (lo, hi - lo + 1)
    if re.fullmatch(r'\d+', t):
        return (int(t), 1)
    raise ValueError(f"cannot parse range {t!r}")


def parse_struct(text):
    """returns dict(n, default_present, debug, fields=[dict(name, ranges, arr, kind, w, readable, writable)])"""
    head = re.search(r'#\[bitfield\(\s*u(\d+)\s*(.*?)\)\]\s*(?:#\[(?:derive|allow|cfg)\([^\]]*\)\]\s*)*(?:///[^\n]*\n)?(?:pub(?:\(crate\))? )?struct (\w+)', text)
    if not head:
        raise ValueError("no bitfield header")
    n = int(head.group(1))
    rest = head.group(2)
    fields = []
    # (doc comment lines may stand between the attribute and the field name)
    for m in re.finditer(r'#\[(bits?)\((.*)\)\]\s*(?:///[^\n]*\n\s*)*((?:r#)?\w+)\s*:\s*(.+?),\s*$', text, re.M):
        form, body, name, ty = m.group(1), m.group(2), m.group(3), m.group(4).strip()
        args = split_top(body)
        # the range argument is the one that is a number, a range or a list (the arguments may come in any order)
        ri = [k for k, a in enumerate(args) if a.startswith('[') or re.fullmatch(r'\d+(\s*\.\.=\s*\d+)?', a)]
        if len(ri) != 1:
            raise ValueError(f"expected exactly one range argument in {body!r}")
        first = args[ri[0]]
        if first.startswith('['):
            ranges = [parse_range(x) for x in split_top(first[1:-1])]
        else:
            ranges = [parse_range(first)]
        access, stride = '', None
        for k, a in enumerate(args):
            if k == ri[0]:
                continue
            if a in ('r', 'w', 'rw'):
                access = ''.join(sorted(set(access + a)))      # `r, w` means readable and writable
            else:
                sm = re.fullmatch(r'stride\s*[=:]\s*(\d+)', a)
                if not sm:
                    raise ValueError(f"cannot parse argument {a!r}")
                stride = int(sm.group(1))
        K = None
        am = re.fullmatch(r'\[\s*(.+?)\s*;\s*(\d+)\s*\]', ty)
        if am:
            ty, K = am.group(1).strip(), int(am.group(2))
        w = sum(l for _, l in ranges)
        if ty.startswith('arbitrary_int::'):
            ty = ty[len('arbitrary_int::'):]
        if ty == 'bool':
            kind = 'b'
        elif re.fullmatch(r'u\d+', ty):
            kind = 'n' if int(ty[1:]) in NATIVE else 'u'
            if int(ty[1:]) != w:
                raise ValueError(f"type {ty} does not match {w} bits")
        elif re.fullmatch(r'i\d+', ty):
            kind = 'i'
            if int(ty[1:]) != w:
                raise ValueError(f"type {ty} does not match {w} bits")
        elif re.match(r'(::)?((core|std)::option::)?Option<', ty):
            kind = 'o'
        elif re.fullmatch(r'(self::)?A?N\d+', ty):
            kind = 'c'
        else:
            kind = 'e'
        arr = None
        if K is not None:
            arr = (K, stride if stride is not None else w)
        fields.append(dict(name=name, ranges=ranges, arr=arr, kind=kind, w=w, readable='r' in access, writable='w' in access))
    return dict(n=n, default_present='default' in rest, debug=bool(re.search(r'\bdebug\b', rest)), name=head.group(3), fields=fields)


def check_struct(text, spec):
    """compare the re-parsed text with the spec dict handed to the reference register"""
    p = parse_struct(text)
    errs = []
    if p['n'] != spec['n']:
        errs.append(f"base width {p['n']} != {spec['n']}")
    if p['default_present'] != (spec.get('default') is not None):
        errs.append("default presence differs")
    if p['debug'] != bool(spec.get('debug')):
        errs.append("debug flag differs")
    if len(p['fields']) != len(spec['fields']):
        errs.append(f"{len(p['fields'])} fields parsed, spec has {len(spec['fields'])}")
    for a, b in zip(p['fields'], spec['fields']):
        if a['name'] != b['name']:
            errs.append(f"field name {a['name']} != {b['name']}")
        if [list(r) for r in a['ranges']] != [list(r) for r in b['ranges']]:
            errs.append(f"{a['name']}: ranges {a['ranges']} != {b['ranges']}")
        if (list(a['arr']) if a['arr'] else None) != (list(b['arr']) if b['arr'] else None):
            errs.append(f"{a['name']}: array {a['arr']} != {b['arr']}")
        if a['kind'] != b['kind']:
            errs.append(f"{a['name']}: kind {a['kind']} != {b['kind']}")
        if a['readable'] != b['readable'] or a['writable'] != b['writable']:
            errs.append(f"{a['name']}: access differs")
    return errs
