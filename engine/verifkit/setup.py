"""./check setup: build the framework from files on disk (offline). Best-effort pre-warm of the quick builds."""
import os, subprocess, sys, time
from . import build as B, layouts as L, rustgen as R
from .model import *


def main(args):
    t0 = time.time()
    # 1. engine crate + its dependencies, in both profiles, through a one-struct workspace
    s = Struct(8, [Field([(0, 3)], 'u'), Field([(3, 1)], 'b')], family='SETUP')
    B.name_structs([s], prefix="SETUP_")
    for prof in ('checked', 'fast'):
        ws, ok, dt, diag = B.build_machine_set("setup", [s], prof)
        if not ok:
            print(diag[-3000:])
            print("setup: engine build failed")
            return 1
        rep = B.run(ws, prof, 'sweep', ['--ops', 'all'])
        print(f"setup: engine ok in profile {prof} ({dt:.1f}s build): {rep['_stdout']}")
    # 2. declmc helper binaries
    try:
        from . import declmc
        declmc.setup()
    except ImportError:
        pass
    if '--prewarm' in args:
        from . import props
        for pid in sorted(props.PROPS):
            try:
                subprocess.run([os.path.join(B.ROOT, "check"), pid, "quick"], env=dict(os.environ, VERIF_NOLOCK="1"), timeout=1800)
            except Exception as e:
                print(f"setup: prewarm of {pid} failed: {e}")
    print(f"setup: done in {time.time() - t0:.1f}s")
    return 0
