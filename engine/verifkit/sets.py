"""Machine sets shared by several properties (one generated workspace per set and tier)."""
from . import layouts as L
from .model import *


TRICKY_NAMES = ["index", "value", "field_value", "temp", "effective_index", "extracted_bits", "mask", "one", "raw", "r#type", "r#fn", "r#match",
                "self_", "x_", "builder_", "zero", "default_", "new_", "f", "with", "set", "r#ref", "r#return", "reserved", "rw"]


def names_structs():
    """field names that coincide with local variables / parameters of the generated code, and raw identifiers"""
    out = []
    for n in (8, 16, 24, 128):
        fs = []
        for j, nm in enumerate(TRICKY_NAMES):
            k = j % 6
            if k == 0:
                f = Field([(j % n, 1)], 'b', family='NAMES')
            elif k == 1:
                f = Field([((j * 3) % (n - 3), 3)], 'u', family='NAMES')
            elif k == 2:
                f = Field([(0, 2)], 'u', arr=(min(3, n // 2), 2), family='NAMES', stride_explicit=False)
            elif k == 3:
                f = Field([(n - 2, 2), (0, 2)], 'u', family='NAMES')
            elif k == 4:
                f = Field([(n - 8, 8)], 'i', family='NAMES')
            else:
                f = Field([(1, 1), (3, 1)], 'u', arr=(2, 4), family='NAMES')
            f.name = nm
            fs.append(f)
        out.append(Struct(n, fs, family='NAMES', passes=[('full', 'full')] if n <= 16 else [('alpha', 'alpha')], keep_names=True))
    return out


def access_pair_structs():
    """every ordered pair of (field kind, access) on a small base, and every access triple of three bools: what is generated for a
    field must not depend on the kind or the access of the fields declared before it"""
    def mk(kind, pos, acc):
        if kind == 'b':
            return Field([(pos, 1)], 'b', access=acc, family='ACCPAIR'), 1
        if kind == 'u3':
            return Field([(pos, 3)], 'u', access=acc, family='ACCPAIR'), 3
        if kind == 'n8':
            return Field([(pos, 8)], 'n', access=acc, family='ACCPAIR'), 8
        if kind == 'i4':
            return Field([(pos + 1, 8)], 'i', access=acc, family='ACCPAIR'), 9       # a signed field that does not end at the top bit
        if kind == 'arrb':
            return Field([(pos, 1)], 'b', arr=(2, 1), access=acc, family='ACCPAIR'), 2
        if kind == 'nc':
            return Field([(pos, 1), (pos + 2, 1)], 'u', access=acc, family='ACCPAIR'), 3
        return Field([(pos, 2)], 'e', enum=ex_enum(2), access=acc, family='ACCPAIR'), 2
    kinds = ('b', 'u3', 'n8', 'arrb', 'nc', 'e2', 'i4')
    accs = ('w', 'r', 'rw')
    out = []
    for k1 in kinds:
        for a1 in accs:
            for k2 in kinds:
                for a2 in accs:
                    f1, adv = mk(k1, 0, a1)
                    f2, adv2 = mk(k2, adv, a2)
                    nb = 16 if adv + adv2 <= 15 else 32
                    out.append(Struct(nb, [f1, f2], family='ACCPAIR', passes=[('alpha', 'full')] if ('n8' in (k1, k2) or 'i4' in (k1, k2)) else [('full', 'full')]))
    for a1 in accs:
        for a2 in accs:
            for a3 in accs:
                out.append(Struct(8, [mk('b', 0, a1)[0], mk('b', 1, a2)[0], mk('b', 2, a3)[0], mk('u3', 3, 'rw')[0]], family='ACCPAIR', passes=[('full', 'full')]))
    return out


def contig_set(tier):
    """C01 / C02 (+ C16): contiguous fields of every kind."""
    structs = names_structs() + access_pair_structs()
    for n in range(1, 17):
        structs += L.pack(n, L.contig(n), 'CONTIG', passes=[('full', 'full')])
    if tier == 'quick':
        for n in L.BW_QUICK:
            fs = L.contig_boundary(n) + L.ladder(n) + L.edge(n)
            structs += L.pack(n, fs, 'WIDE', passes=[('alpha', 'alpha')])
    else:
        for n in range(17, 129):
            p = [('full', 'alpha'), ('alpha', 'full')] if n <= 24 else [('alpha', 'alpha')]
            structs += L.pack(n, L.contig(n), 'CONTIG', passes=p)
    return structs


def u32_full_set():
    """thorough: the u32 base with all 2^32 raw values (getters: every boundary field;
    setters: v in {0, all-ones} via the core4 value set on a smaller field list)"""
    fs = L.contig_boundary(32) + L.noncontig_boundary(32)
    return L.pack(32, fs, 'U32FULL', passes=[('full', 'core4')])


def u32_put_set():
    """thorough C02: all 2^32 raw values x v in {0, all-ones} x {with_, set_} for 18 boundary fields"""
    F = lambda r, k: Field(r, k, family='U32PUT')
    fs = [F([(0, 1)], 'b'), F([(31, 1)], 'b'), F([(15, 1)], 'u'), F([(0, 3)], 'u'), F([(29, 3)], 'u'), F([(14, 5)], 'u'),
          F([(0, 8)], 'n'), F([(24, 8)], 'n'), F([(12, 8)], 'n'), F([(23, 8)], 'i'), F([(16, 16)], 'n'), F([(17, 15)], 'u'),
          F([(0, 17)], 'u'), F([(1, 31)], 'u'), F([(0, 32)], 'n'), F([(8, 16)], 'i'),
          F([(24, 8), (0, 8)], 'n'), F([(31, 1), (0, 7)], 'n')]
    return L.pack(32, fs, 'U32PUT', passes=[('full', 'core2')])


def arr_set(tier):
    structs = []
    for n in range(2, 17):
        fs = L.arrays_full(n)
        # full state space up to 12 bits in the quick tier, alphabets above
        if tier == 'quick':
            p = [('full', 'full')] if n <= 10 else [('alpha', 'full'), ('full', 'core4')] if n <= 12 else [('alpha', 'full')]
        else:
            p = [('full', 'full')]
        structs += L.pack(n, fs, 'ARR', passes=p)
    for n in (8, 16, 32, 64, 128) if tier == 'quick' else range(8, 129, 8):
        structs += L.pack(n, L.bool_arrays(n), 'ARRBOOL', passes=[('alpha', 'full')] if n > 16 else [('full', 'full')])
    for n in L.wide_bases(tier):
        structs += L.pack(n, L.arrays_boundary(n), 'ARRB', passes=[('alpha', 'alpha')])
    return structs


def nc_set(tier):
    structs = []
    if tier == 'quick':
        structs += L.pack(8, L.noncontig(8, [2]), 'NC8', passes=[('full', 'full')])
        structs += L.pack(6, L.noncontig(6, [3]), 'NC6', passes=[('full', 'full')])
        structs += L.pack(4, L.noncontig(4, [2, 3, 4]), 'NC4', passes=[('full', 'full')])
        for n in (8, 12, 16):
            structs += L.pack(n, L.ncarr(n), 'NCARR', passes=[('full', 'full')])
            structs += L.pack(n, L.noncontig_boundary(n), 'NCB', passes=[('full', 'full')])
        for n in L.BW_QUICK:
            structs += L.pack(n, L.noncontig_boundary(n) + L.ncarr(n), 'NCB', passes=[('alpha', 'alpha')])
    else:
        structs += L.pack(8, L.noncontig(8, [2, 3, 4]), 'NC8', passes=[('full', 'full')])
        structs += L.pack(8, L.bit_permutations(8), 'NCPERM', passes=[('full', 'full')])
        structs += L.pack(6, L.noncontig(6, [2, 3, 4, 5, 6]), 'NC6', passes=[('full', 'full')])
        structs += L.pack(4, L.noncontig(4, [2, 3, 4]), 'NC4', passes=[('full', 'full')])
        structs += L.pack(16, L.noncontig(16, [2]), 'NC16', passes=[('full', 'full')])
        for n in range(5, 17):
            structs += L.pack(n, L.ncarr(n) + L.noncontig_boundary(n), 'NCARR', passes=[('full', 'full')])
        for n in range(17, 129):
            structs += L.pack(n, L.noncontig_boundary(n) + L.ncarr(n), 'NCB', passes=[('alpha', 'alpha')])
    return structs


def signed_set(tier):
    structs = []
    for n in range(8, 17):
        structs += L.pack(n, L.signed_dedicated(n), 'SIGNED', passes=[('full', 'full')])
    for n in L.wide_bases(tier):
        structs += L.pack(n, L.signed_dedicated(n), 'SIGNED', passes=[('alpha', 'alpha')] if n > 24 else [('alpha', 'full'), ('full', 'alpha')])
    return structs


# ------------------------------------------------------------------------------------------------
# C07: bitenums

import itertools


def _forms(n, discs, orders=True):
    """all accepted `exhaustive` forms for a discriminant tuple (declaration order preserved)"""
    full = len(set(discs)) == (1 << n)
    out = []
    if full:
        out.append(EnumDef(n, 'true', discs, spell='='))
        out.append(EnumDef(n, 'true', discs, spell=':'))
    else:
        out.append(EnumDef(n, 'false', discs, spell='='))
        out.append(EnumDef(n, 'false', discs, spell=':'))
        out.append(EnumDef(n, 'false', discs, omit_exh=True))
    out.append(EnumDef(n, 'conditional', discs, spell='='))
    return out


def _orders(ds, allperm=False):
    ds = tuple(sorted(ds))
    if allperm:
        return [tuple(p) for p in itertools.permutations(ds)]
    res = [ds]
    if len(ds) > 1:
        res.append(tuple(reversed(ds)))
        res.append(ds[1:] + ds[:1])
        res.append(ds[-1:] + ds[:-1])       # largest first
    seen, out = set(), []
    for r in res:
        if r not in seen:
            seen.add(r)
            out.append(r)
    return out


def enum_set(tier):
    eds = []
    for n in (1, 2, 3):
        U = range(1 << n)
        for k in range(1, (1 << n) + 1):
            for ds in itertools.combinations(U, k):
                for od in _orders(ds, allperm=(n <= 2)):
                    eds += _forms(n, od)
                # conditional with a dead (#[cfg(any())]) variant whose discriminant is otherwise unused
                rest = [d for d in U if d not in ds]
                if rest:
                    eds.append(EnumDef(n, 'conditional', tuple(ds), dead=(rest[0],)))
                    eds.append(EnumDef(n, 'conditional', tuple(ds), dead=(rest[0],), dead_first=True))
                    if len(rest) > 1:
                        eds.append(EnumDef(n, 'conditional', tuple(ds), dead=(rest[-1], rest[0])))
                # compiled-out variants that share a discriminant with a live one (mutually exclusive cfgs), declared
                # after and before the live variant
                eds.append(EnumDef(n, 'conditional', tuple(ds), dead=(ds[0],)))
                eds.append(EnumDef(n, 'conditional', tuple(ds), dead=(ds[-1],), dead_first=True))
                if len(ds) > 1:
                    eds.append(EnumDef(n, 'conditional', tuple(ds), dead=(ds[-1], ds[0]), dead_first=True))
                    eds.append(EnumDef(n, 'conditional', tuple(reversed(ds)), dead=tuple(ds), dead_first=(k % 2 == 0)))
    n = 4
    U = range(16)
    sizes = (1, 2, 14, 15, 16) if tier == 'quick' else range(1, 17)
    for k in sizes:
        for ds in itertools.combinations(U, k):
            if tier == 'quick' or k in (1, 2, 3, 14, 15, 16):
                for od in _orders(ds)[:2]:
                    eds += _forms(n, od)[:1]
            else:
                eds.append(_forms(n, tuple(ds))[0])
    for n in range(5, 9):
        mx = (1 << n) - 1
        full = tuple(range(1 << n))
        eds += _forms(n, full)
        eds += _forms(n, tuple(reversed(full)))[:1]
        eds += _forms(n, full[1:] + full[:1])[:1]
        eds += _forms(n, full[:-1])            # full minus one (max missing)
        eds += _forms(n, full[1:])[:1]         # zero missing
        for d in (0, 1, 1 << (n - 1), mx):
            eds += _forms(n, (d,))[:1]
        eds += _forms(n, (0, mx))
        eds += _forms(n, (mx, 0))[:1]
        eds.append(EnumDef(n, 'conditional', (0, mx), dead=(1,)))
        eds.append(EnumDef(n, 'conditional', (0, mx), dead=(mx,), dead_first=True))
        eds.append(EnumDef(n, 'conditional', (mx, 0), dead=(0, mx)))
    for n in range(9, 65):
        mx = (1 << n) - 1
        eds += _forms(n, (mx,))[:1]
        eds += _forms(n, (0, mx))[:1 if tier == 'quick' else 4]
        eds += _forms(n, (0, 1, 1 << (n - 1), mx))[:1]
        eds += _forms(n, (mx, 1 << (n - 1), 1, 0))[:1]
        # discriminants far below the capacity of the base: around every 8/16/32-bit mark below n
        eds += _forms(n, (0, 1, 2, 7))[:1]
        eds += _forms(n, narrow_discs(n))[:1]
        if tier == 'thorough' or n in (9, 12, 16, 17, 24, 32, 33, 48, 63, 64):
            for k in (8, 16, 32):
                if k < n:
                    for ds in ((1 << k,), (0, 1 << k), (0, (1 << k) - 1), (0, (1 << k) + 1), ((1 << k), 0, 1, (1 << k) - 1, (1 << k) + 1)):
                        eds += _forms(n, ds)[:1]
                    eds.append(EnumDef(n, 'conditional', (0, 1 << k), dead=((1 << k) - 1,)))
        if n in (9, 16, 17, 32, 33, 63, 64):
            eds += _forms(n, (0, mx))
            eds.append(EnumDef(n, 'conditional', (mx, 0), dead=(1, 2)))
            eds.append(EnumDef(n, 'conditional', (mx, 0), dead=(mx,), dead_first=True))
    if tier == 'thorough':
        # N = 9, 10: the exhaustive enums (512 / 1024 variants)
        for n in (9, 10):
            eds += _forms(n, tuple(range(1 << n)))[:1]
    # dedupe by name
    seen, out = set(), []
    for e in eds:
        if e.name not in seen:
            seen.add(e.name)
            out.append(e)
    return out


# ------------------------------------------------------------------------------------------------
# C06: raw round trip, constants, layout

def consts_set(tier):
    structs = []
    for n in range(1, 129):
        m = mask(n)
        aa = 0xAAAAAAAAAAAAAAAAAAAAAAAAAAAAAAAA & m
        # fields cover only bit 0 (bool) and, when there is room, bits 1..=2: every other default bit is "covered by no field"
        def fields():
            fs = [Field([(0, 1)], 'b', family='CONST')]
            if n >= 3:
                fs.append(Field([(1, 2)], 'u', family='CONST'))
            return fs
        structs.append(Struct(n, fields(), family='CONST', debug=(n % 2 == 1)))
        vals = []
        for v in (0, 1, m, aa, m & ~0x7, (1 << (n - 1)), 0x0123456789ABCDEFFEDCBA9876543210 & m):
            if v not in vals:
                vals.append(v)
        k = 0
        for v in vals:
            for form in ('lit', 'const'):
                for sep in ('=', ':'):
                    k += 1
                    # quick: every value in one (rotating) form/spelling, boundary values in all four; thorough: full product
                    if tier == 'quick' and v not in (m, m & ~0x7) and (k + n) % 4 != 0:
                        continue
                    # every other declaration also carries the `debug` option (option interactions)
                    structs.append(Struct(n, fields(), default=v, default_form=form, default_sep=sep, family='CONSTDEF', debug=(k % 2 == 1), debug_first=(k % 4 == 3)))
    return structs


# ------------------------------------------------------------------------------------------------
# C08: enum- and custom-typed fields

def ex_enum(w):
    full = tuple(range(1 << w))
    # user types whose names look like "letter + digits" (X3, Q17) must not be mistaken for integer types
    return EnumDef(w, 'true', full[1:] + full[:1], alias=f"X{w}")


def ne_enum(w):
    mx = (1 << w) - 1
    if w == 1:
        return EnumDef(1, 'false', (1,), alias="Q1")
    ds = [mx, 0, 1 << (w - 1)]
    if w >= 3:
        ds.append(1)
    return EnumDef(w, 'false', tuple(ds), omit_exh=(w % 2 == 0), alias=f"Q{w}")


def narrow_discs(w):
    """discriminants far below the capacity of a w-bit enum, around the nearest 8/16/32-bit mark below w"""
    if w < 3:
        return None
    if w < 9:
        return (0, 1, 1 << (w - 2))
    k = max(k for k in (8, 16, 32) if k < w)
    return (0, 1, (1 << k) - 1, 1 << k)


def narrow_enum(w):
    return EnumDef(w, 'false', narrow_discs(w), omit_exh=(w % 2 == 1), alias=f"Z{w}")


NE_WIDTHS = (1, 2, 3, 4, 5, 6, 7, 8, 9, 16, 17, 32, 33, 63, 64)
NARROW_WIDTHS = (3, 4, 8, 9, 12, 16, 17, 24, 32, 33, 48, 64)
IN_WIDTHS = (1, 3, 4, 8, 12, 16, 24, 32, 64, 100, 128)


def custom_fields(n, tier):
    out = []
    exw = range(1, 5) if tier == 'quick' else range(1, 9)

    def mk(kind, w, **kw):
        if kind == 'e':
            return dict(kind='e', enum=ex_enum(w), **kw)
        if kind == 'o':
            return dict(kind='o', enum=ne_enum(w), **kw)
        if kind == 'z':
            return dict(kind='o', enum=narrow_enum(w), **kw)
        return dict(kind='c', inner_n=w, **kw)

    cands = [('e', w) for w in exw] + [('o', w) for w in NE_WIDTHS] + [('c', w) for w in IN_WIDTHS] + [('z', w) for w in NARROW_WIDTHS]
    for kind, w in cands:
        if w > n:
            continue
        fam = {'e': 'CUSTEX', 'o': 'CUSTOPT', 'c': 'CUSTNEST', 'z': 'CUSTOPTZ'}[kind]
        for lo in sorted({0, 1, n - w} & set(range(0, n - w + 1))):
            f0 = Field([(lo, w)], family=fam, qualified=(lo == 1), form=('list1' if lo == 1 and w % 2 else 'auto'), **mk(kind, w))
            if lo == 0 and w % 2 == 0:
                f0.type_alias = True          # the field type written through a type alias of the enum / nested bitfield
            if kind in ('o', 'z') and lo != 1:
                # `Option` written with a path: the same Rust type (the macro looks at the last path segment)
                f0.opt_path = ('core::option::', '::core::option::', 'std::option::', '')[(w + lo + n) % 4]
            out.append(f0)
        # arrays
        for stride in (w, w + 1):
            kmax = (n - w) // stride + 1
            for K in sorted({2, kmax}):
                if 2 <= K <= kmax:
                    out.append(Field([(0, w)], arr=(K, stride), family=fam + 'ARR', stride_explicit=(stride != w), **mk(kind, w)))
                    if (n - w - (K - 1) * stride) >= 1:
                        out.append(Field([(1, w)], arr=(K, stride), family=fam + 'ARR', **mk(kind, w)))
        # split over two ranges, both orders
        if w >= 2 and w + 1 <= n:
            h = w // 2
            out.append(Field([(0, h), (n - (w - h), w - h)], family=fam + 'NC', **mk(kind, w)))
            out.append(Field([(n - (w - h), w - h), (0, h)], family=fam + 'NC', **mk(kind, w)))
            out.append(Field([(1, w - h), (w - h + 1, h)], family=fam + 'NC', **mk(kind, w)) if w + 1 <= n else None)
            # multi-range arrays
            span = w + 1
            if 2 * span <= n:
                out.append(Field([(h + 1, w - h), (0, h)], arr=(2, span), family=fam + 'NCARR', **mk(kind, w)))
    return [f for f in out if f is not None]


def custom_set(tier):
    structs = []
    for n in range(1, 17):
        structs += L.pack(n, custom_fields(n, tier), 'CUSTOM', per=30, passes=[('full', 'full')])
    for n in L.wide_bases(tier):
        structs += L.pack(n, custom_fields(n, tier), 'CUSTOM', per=30, passes=[('alpha', 'alpha')])
    return structs


# ------------------------------------------------------------------------------------------------
# C11 / C12: mixed layouts for the product machine; C13: builder layouts

def mix_struct(n):
    """one struct per base: contiguous fields touching bit N-1, overlapping fields, an array whose last element
    ends at N-1, a multi-range field using the top bit, overlapping array elements, signed/enum fields,
    a full-width field, a write-only and a read-only field"""
    fs = []

    def add(ranges, kind, arr=None, access='rw', **kw):
        f = Field(ranges, kind, arr=arr, access=access, family='MIX', **kw)
        if f.top() <= n and all(l >= 1 and lo >= 0 for lo, l in ranges):
            fs.append(f)

    add([(0, 1)], 'b')
    if n > 1:
        add([(n - 1, 1)], 'b')
    if n >= 3:
        add([(n - 3, 3)], 'u')
    if n >= 2:
        add([(0, min(n, 5))], 'u' if min(n, 5) not in NATIVE else 'n')
    if n >= 4:
        add([(2, min(4, n - 2))], 'u')
        K = min(3, n // 2)
        add([(n - 2 * K, 2)], 'u', arr=(K, 2), stride_explicit=False)
        add([(n - 1, 1), (0, 2)], 'u')
    if n >= 5:
        add([(0, 1), (2, 1)], 'u', arr=(2, 2))                  # elements {0,2} and {2,4}: overlapping elements
        add([(1, 1), (3, 1)], 'u', arr=(min(2, (n - 4) // 1 + 1), 1))   # interleaving elements {1,3},{2,4}
    if n >= 8:
        add([(n - 8, 8)], 'i')
        add([(n - 8, 8)], 'n', access='r')
    if n >= 10:
        add([(1, 8)], 'i')                  # signed fields that do NOT end at bit N-1: a sign extension would hit visible bits
    if n >= 16:
        add([(n - 16, 16)], 'i')
    if n >= 34:
        add([(1, 32)], 'i')
    if n >= 32:
        add([(n - 32, 32)], 'i')
    if n >= 64:
        add([(n - 64, 64)], 'i')            # a signed field as wide as the smaller storage class, ending at bit N-1
        add([(0, 64)], 'i', access='w')
    k = 'n' if n in NATIVE else 'u'
    add([(0, n)], k)
    if n >= 3:
        add([(1, 2)], 'e', enum=ex_enum(2))
        add([(n - 3, 3)], 'o', enum=ne_enum(3))
    if n >= 2:
        add([(0, 2)], 'u', access='w')
    if 2 <= n <= 16:
        add([(0, 1)], 'u', arr=(n, 1), stride_explicit=(n % 2 == 0))
    elif n > 16:
        add([(n - 8, 1)], 'b', arr=(8, 1), stride_explicit=(n % 2 == 0))     # bool array whose last element is bit N-1
    if n >= 8 and n % 4 == 0:
        q = n // 4
        add([(0, q), (3 * q, q), (2 * q, q), (q, q)], 'n' if n in NATIVE else 'u')      # a permutation of the whole base, first range at bit 0
    if n >= 9:
        add([(n - 9, 4), (n - 4, 4)], 'n')
        add([(n - 4, 4), (n - 9, 4)], 'i', access='rw')
    return Struct(n, fs, family='MIX', passes=[('full', 'full')] if n <= 16 else [('alpha', 'alpha')])


def compositions(n, maxparts):
    def rec(rem, parts):
        if rem == 0:
            yield list(parts)
            return
        if len(parts) == maxparts:
            return
        for p in range(1, rem + 1):
            parts.append(p)
            yield from rec(rem - p, parts)
            parts.pop()
    yield from rec(n, [])


def _kind(w, salt):
    ks = L.kinds_for(w)
    return ks[salt % len(ks)]


def builder_structs(tier):
    out = []
    maxn = 8 if tier == 'quick' else 14
    salt = 0
    for n in range(1, maxn + 1):
        m = mask(n)
        for comp in compositions(n, 4):
            salt += 1
            lo, parts = 0, []
            for w in comp:
                parts.append((lo, w))
                lo += w
            def mkf(idx_list, ro=None, order=None):
                fs = []
                for j in idx_list:
                    lo_, w_ = parts[j]
                    acc_ = 'r' if j == ro else ('w' if (salt + j) % 6 == 5 else 'rw')      # some steps belong to write-only fields
                    sel = (salt * 3 + j) % 10
                    if sel == 7 and w_ <= 4:
                        fs.append(Field([(lo_, w_)], 'e', enum=ex_enum(w_), access=acc_, family='BLD'))     # incl. 1-bit enums
                    elif sel == 8 and w_ in NE_WIDTHS:
                        fs.append(Field([(lo_, w_)], 'o', enum=ne_enum(w_), access=acc_, family='BLD'))
                    elif sel == 9 and w_ in IN_WIDTHS:
                        fs.append(Field([(lo_, w_)], 'c', inner_n=w_, access=acc_, family='BLD'))
                    else:
                        fs.append(Field([(lo_, w_)], _kind(w_, salt + j), access=acc_, family='BLD'))
                if order == 'rev':
                    fs.reverse()
                elif order == 'rot' and len(fs) > 1:
                    fs = fs[1:] + fs[:1]
                return fs
            allidx = list(range(len(parts)))
            # (a) complete, no default
            out.append(Struct(n, mkf(allidx), family='BLDFULL', has_builder=True))
            if len(parts) > 1:
                out.append(Struct(n, mkf(allidx, order='rev' if salt % 2 else 'rot'), family='BLDFULL', has_builder=True))
            # (b) with a default whose bits lie also in a gap / read-only part / above
            dv = (0xA5C3 ^ (salt * 0x1d)) & m
            if dv == 0:
                dv = m
            out.append(Struct(n, mkf(allidx), default=dv, family='BLDDEF', has_builder=True, default_sep=':' if salt % 3 == 0 else '='))
            if len(parts) > 1:
                gap = salt % len(parts)
                out.append(Struct(n, mkf(allidx, ro=gap), default=m, family='BLDGAP', has_builder=True))
                out.append(Struct(n, mkf([j for j in allidx if j != gap], order='rev' if salt % 2 == 0 else None), default=dv | (mask(parts[gap][1]) << parts[gap][0]),
                                  family='BLDGAP', has_builder=True, default_form='const' if salt % 2 else 'lit'))
    # arrays of every K for bool / u2 / u4 elements on u8 / u16
    for n in (8, 16):
        for w, kind in ((1, 'b'), (1, 'u'), (2, 'u'), (4, 'u')):
            for K in range(2, n // w + 1):
                for stride in sorted({w, w + 1}):
                    if (K - 1) * stride + w > n:
                        continue
                    f = Field([(0, w)], kind, arr=(K, stride), family='BLDARR', stride_explicit=(stride != w))
                    complete = (stride == w and K * w == n)
                    if complete:
                        out.append(Struct(n, [f], family='BLDARR', has_builder=True))
                    out.append(Struct(n, [f], default=(0x5AA5 & mask(n)), family='BLDARR', has_builder=True))
                    # array + a scalar after it
                    rest = n - ((K - 1) * stride + w)
                    if rest >= 1:
                        g = Field([(n - rest, rest)], _kind(rest, K), family='BLDARR')
                        out.append(Struct(n, [g, f] if K % 2 else [f, g], default=(0x0FF0 & mask(n)) if not (complete) else None, family='BLDARR', has_builder=True))
    # wide bases: bool / u8 arrays with many elements
    for K in (2, 3, 4, 5, 7, 8, 16, 32, 64, 128):
        for n in (32, 64, 128) + ((33, 100) if tier == 'thorough' else ()):
            if K <= n:
                f = Field([(0, 1)], 'b', arr=(K, 1), family='BLDWIDE', stride_explicit=False)
                out.append(Struct(n, [f], default=(0xFEDCBA9876543210FEDCBA9876543210 & mask(n)) if K != n else None, family='BLDWIDE', has_builder=True))
            if K * 8 <= n:
                f = Field([(0, 8)], 'n' if K % 2 else 'i', arr=(K, 8), family='BLDWIDE', stride_explicit=False)
                out.append(Struct(n, [f], default=None if K * 8 == n else 1 << (n - 1), family='BLDWIDE', has_builder=True))
            if K * 9 <= n:
                f = Field([(n - K * 9, 8)], 'n', arr=(K, 9), family='BLDWIDE')
                out.append(Struct(n, [f], default=mask(n), family='BLDWIDE', has_builder=True))
    # multi-range, interleaved arrays, signed, enum steps, arbitrary-int bases
    sp = []
    sp.append(Struct(8, [Field([(4, 4), (0, 4)], 'n', family='BLDX')], family='BLDX', has_builder=True))
    sp.append(Struct(8, [Field([(4, 4), (0, 4)], 'i', family='BLDX')], default=0x3c, family='BLDX', has_builder=True))
    sp.append(Struct(4, [Field([(0, 1), (2, 1)], 'u', arr=(2, 1), family='BLDX')], family='BLDX', has_builder=True))
    sp.append(Struct(16, [Field([(0, 1), (2, 1), (4, 1), (6, 1)], 'u', arr=(2, 1), family='BLDX'), Field([(8, 8)], 'i', family='BLDX')], family='BLDX', has_builder=True))
    sp.append(Struct(16, [Field([(1, 1), (3, 1)], 'u', arr=(2, 4), family='BLDX'), Field([(8, 4), (12, 4)], 'n', family='BLDX')], default=0xFFFF, family='BLDX', has_builder=True))
    sp.append(Struct(12, [Field([(0, 2)], 'e', enum=ex_enum(2), family='BLDX'), Field([(2, 3)], 'o', enum=ne_enum(3), family='BLDX'), Field([(5, 7)], 'u', family='BLDX')], family='BLDX', has_builder=True))
    sp.append(Struct(12, [Field([(9, 3)], 'o', enum=ne_enum(3), family='BLDX'), Field([(0, 8)], 'i', family='BLDX')], default=0x100, family='BLDX', has_builder=True))
    sp.append(Struct(24, [Field([(16, 8)], 'i', family='BLDX'), Field([(0, 16)], 'i', family='BLDX')], family='BLDX', has_builder=True))
    sp.append(Struct(24, [Field([(8, 8)], 'c', inner_n=8, family='BLDX'), Field([(23, 1)], 'b', family='BLDX')], default=0x7F00FF, family='BLDX', has_builder=True))
    sp.append(Struct(100, [Field([(0, 64)], 'n', family='BLDX'), Field([(64, 36)], 'u', family='BLDX')], family='BLDX', has_builder=True))
    sp.append(Struct(100, [Field([(99, 1)], 'b', family='BLDX'), Field([(3, 64)], 'i', family='BLDX')], default=(1 << 98) | 5, family='BLDX', has_builder=True, default_form='const'))
    sp.append(Struct(128, [Field([(0, 128)], 'n', family='BLDX')], family='BLDX', has_builder=True))
    sp.append(Struct(128, [Field([(0, 128)], 'i', family='BLDX')], default=7, family='BLDX', has_builder=True))
    sp.append(Struct(127, [Field([(0, 127)], 'u', family='BLDX')], family='BLDX', has_builder=True))
    sp.append(Struct(64, [Field([(32, 32), (0, 32)], 'n', family='BLDX')], family='BLDX', has_builder=True))
    sp.append(Struct(32, [], default=0xdeadbeef, family='BLDX', has_builder=True))                 # no writable field at all
    for n_ in (1, 8, 12, 16, 64, 65, 100, 127, 128):
        sp.append(Struct(n_, [], default=mask(n_), family='BLDX', has_builder=True))
        sp.append(Struct(n_, [Field([(0, 1)], 'b', access='r', family='BLDX')], default=(0xA5A5A5A5A5A5A5A5A5A5A5A5A5A5A5A5 & mask(n_)) | 1, family='BLDX', has_builder=True))
    sp.append(Struct(32, [Field([(0, 8)], 'n', access='r', family='BLDX')], default=0x12345678, family='BLDX', has_builder=True))
    out += sp
    # struct visibility decides the visibility of the generated Partial<..> builder type
    for k, st in enumerate(out):
        if k % 5 == 2:
            st.vis = 'pub(crate)'
        elif k % 5 == 4:
            st.vis = ''
    # several array fields in one builder (the sum of the element counts matters, not only each count)
    out.append(Struct(64, [Field([(0, 4)], 'u', arr=(8, 4), stride_explicit=False), Field([(32, 1)], 'b', arr=(32, 1), stride_explicit=False)], has_builder=True, family='BLDMULTIARR'))
    out.append(Struct(128, [Field([(0, 1)], 'b', arr=(40, 1), stride_explicit=False), Field([(40, 8)], 'n', arr=(5, 8), stride_explicit=False),
                            Field([(80, 2)], 'u', arr=(24, 2), stride_explicit=False)], has_builder=True, family='BLDMULTIARR'))
    out += signed_builder_structs()
    # field names that coincide with parameters / locals of the generated builder code, and raw identifiers
    fsn = []
    for j, nm in enumerate(TRICKY_NAMES[:16]):
        f = Field([(2 * j, 2)], 'u', family='BLDNAMES')
        f.name = nm
        fsn.append(f)
    out.append(Struct(32, fsn, family='BLDNAMES', has_builder=True, keep_names=True))
    fsn2 = []
    for j, nm in enumerate(reversed(TRICKY_NAMES[:12])):
        f = Field([(2 * j, 1)], 'b', arr=(2, 1), family='BLDNAMES', stride_explicit=False) if j % 3 == 0 else Field([(2 * j, 2)], 'u', family='BLDNAMES')
        f.name = nm
        fsn2.append(f)
    out.append(Struct(32, fsn2, default=0xF000_0000, family='BLDNAMES', has_builder=True, keep_names=True))
    # many steps: the chain length / running mask for structs with 9..64 writable fields
    for n, w in ((16, 1), (32, 1), (64, 1), (64, 4), (128, 8), (128, 2), (24, 2), (100, 10)):
        k = n // w
        fs = [Field([(i * w, w)], _kind(w, i), family='BLDMANY') for i in range(k)]
        out.append(Struct(n, fs, family='BLDMANY', has_builder=True))
        out.append(Struct(n, list(reversed([Field(f.ranges, f.kind, family='BLDMANY') for f in fs])), family='BLDMANY', has_builder=True))
        # every other field read-only, with a default
        fs2 = [Field([(i * w, w)], _kind(w, i), access=('rw' if i % 2 == 0 else 'r'), family='BLDMANY') for i in range(k)]
        out.append(Struct(n, fs2, default=mask(n) & 0x5A5A5A5A5A5A5A5A5A5A5A5A5A5A5A5A, family='BLDMANY', has_builder=True))
    return out


def mix_builder_struct(n):
    """non-overlapping layout with a builder for the product machine (builder chain as one action)"""
    fs = [Field([(0, 1)], 'b', family='MIXB')]
    if n >= 4:
        fs.append(Field([(1, 2)], 'u', family='MIXB'))
    if n >= 14:
        fs.append(Field([(n - 8, 8)], 'i', family='MIXB'))
        fs.append(Field([(3, 1)], 'u', arr=(2, 2), family='MIXB'))
    elif n >= 6:
        fs.append(Field([(n - 2, 2)], 'u', family='MIXB'))
    return Struct(n, fs, default=mask(n) & 0xC3C3C3C3C3C3C3C3C3C3C3C3C3C3C3C3, family='MIXB', has_builder=True,
                  passes=[('full', 'full')] if n <= 16 else [('alpha', 'alpha')])


def mix_set(tier):
    structs = []
    wide = [n for n in L.wide_bases(tier)]
    for n in list(range(1, 17)) + wide:
        structs.append(mix_struct(n))
        structs.append(mix_builder_struct(n))
    return structs


# ------------------------------------------------------------------------------------------------
# C19: debug layouts (all fields readable scalars)

def debug_structs(tier):
    out = []
    bases = (3, 8, 12, 16, 24, 32, 64, 100, 128) if tier == 'quick' else tuple(range(1, 21)) + (24, 31, 32, 33, 48, 63, 64, 65, 96, 100, 127, 128)
    full_max = 16 if tier == 'quick' else 20

    def cands(n):
        c = []
        c.append(lambda: Field([(0, 1)], 'b'))
        c.append(lambda: Field([(n - 1, 1)], 'b', access='r'))
        if n >= 3:
            c.append(lambda: Field([(0, 3)], 'u'))
            c.append(lambda: Field([(n - 3, 3)], 'o', enum=ne_enum(3)))
            c.append(lambda: Field([(1, 2)], 'e', enum=ex_enum(2), access='r'))
        if n >= 4:
            c.append(lambda: Field([(n - 4, 4)], 'c', inner_n=4))
            c.append(lambda: Field([(n - 1, 1), (0, 2)], 'u'))                 # multi-range
            c.append(lambda: Field([(2, 2), (0, 2)], 'u', access='r'))
        if n >= 8:
            c.append(lambda: Field([(n - 8, 8)], 'n'))
            c.append(lambda: Field([(0, 8)], 'i'))
            c.append(lambda: Field([(0, 8)], 'o', enum=ne_enum(8)))
            c.append(lambda: Field([(n - 8, 8)], 'c', inner_n=8))
        if n >= 12:
            c.append(lambda: Field([(n - 12, 12)], 'u'))
            c.append(lambda: Field([(8, 4), (0, 4)], 'i'))
        if n >= 16:
            c.append(lambda: Field([(n - 16, 16)], 'i'))
        if n >= 64:
            c.append(lambda: Field([(n - 64, 64)], 'n'))
            c.append(lambda: Field([(0, 64)], 'i'))
        if n > 64:
            c.append(lambda: Field([(0, n)], 'u' if n not in NATIVE else 'n'))
        if n == 128:
            c.append(lambda: Field([(0, 128)], 'i'))
        c.append(lambda: Field([(0, n)], 'n' if n in NATIVE else 'u'))
        return c

    for n in bases:
        cs = cands(n)
        p = [('full', 'full')] if n <= full_max else [('alpha', 'alpha')]
        # single-field structs of every kind
        for mk in cs:
            out.append(Struct(n, [mk()], debug=True, twin=True, family='DBG1', passes=p))
        # windows of 2..5 fields in three declaration orders
        k = 0
        for size in (2, 3, 4, 5):
            for startc in range(0, max(1, len(cs) - size + 1), 2):
                fs = [mk() for mk in cs[startc:startc + size]]
                if len(fs) < size:
                    continue
                k += 1
                order = k % 3
                if order == 1:
                    fs.reverse()
                elif order == 2:
                    fs = fs[1:] + fs[:1]
                out.append(Struct(n, fs, debug=True, twin=True, family='DBGN', passes=p, default=(1 if k % 4 == 0 else None), debug_first=(k % 8 == 0)))
        # every candidate at once
        out.append(Struct(n, [mk() for mk in cs], debug=True, twin=True, family='DBGALL', passes=p))
        out.append(Struct(n, [mk() for mk in reversed(cs)], debug=True, twin=True, family='DBGALL', passes=p))
        # no fields at all
        out.append(Struct(n, [], debug=True, twin=True, family='DBG0', passes=p))
        # field names that coincide with identifiers used inside the generated Debug impl (no raw identifiers: how `r#type`
        # is printed is not determined by the property)
        if n >= 8:
            fsn = []
            for j, nm in enumerate(["f", "self_", "fmt", "value", "index", "raw", "finish", "field", "_reserved", "_pad", "__x", "x_",
                                    "with_parity", "set_mode", "with_with_x", "reserved", "rw", "debug_struct"]):
                fld = Field([(j % (n - 1), 2)], 'u', family='DBGNAMES')
                fld.name = nm
                fsn.append(fld)
            out.append(Struct(n, fsn, debug=True, twin=True, family='DBGNAMES', passes=p, keep_names=True))
            # raw identifiers: the label may be printed as `r#type` or as `type` (the property does not say which), nothing else
            fsr = []
            for j, nm in enumerate(["r#type", "level", "r#mod", "r#fn"]):
                fld = Field([(2 * j, 2)], 'u', family='DBGRAW')
                fld.name = nm
                fsr.append(fld)
            out.append(Struct(n, fsr, debug=True, twin=True, family='DBGRAW', passes=p, keep_names=True))
    # many fields: every count around the 32/64/128 marks, one field per bit (bool, or a 2-bit integer overlapping its neighbour),
    # in declaration order and reversed; every field must be listed, in order
    counts = (17, 32, 33, 34, 64, 65, 66, 100, 128) if tier == 'quick' else (17, 24, 31, 32, 33, 34, 35, 40, 48, 63, 64, 65, 66, 67, 96, 97, 98, 99, 100, 127, 128)
    for m in counts:
        for shape in (0, 1):
            fs = []
            for j in range(m):
                if shape == 0 or j % 3 or j + 2 > m:
                    fs.append(Field([(j, 1)], 'b', family='DBGMANY', access=('r' if j % 5 == 4 else 'rw')))
                else:
                    fs.append(Field([(j, 2)], 'u', family='DBGMANY'))
            if shape == 1:
                fs.reverse()
            out.append(Struct(m if shape == 0 else max(m, 128 if m > 64 else 64), fs, debug=True, twin=True, family='DBGMANY', passes=[('alpha', 'alpha')]))
    return out


# ------------------------------------------------------------------------------------------------
# C15: const-context cross-section

def const_set(tier):
    import dataclasses
    structs = []
    small = range(1, 9)
    wide = (12, 16, 24, 32, 64, 100, 128) if tier == 'quick' else (9, 12, 16, 17, 24, 31, 32, 33, 48, 63, 64, 65, 96, 100, 127, 128)
    for n in list(small) + list(wide):
        structs.append(mix_struct(n))
        structs.append(mix_builder_struct(n))
    for n in (4, 8, 16, 32) if tier == 'quick' else (3, 4, 6, 8, 12, 16, 24, 32, 64, 128):
        fs = custom_fields(n, 'quick')
        step = max(1, len(fs) // (24 if tier == 'quick' else 60))
        structs += L.pack(n, fs[::step], 'CUSTOM', per=12)
    bs = builder_structs('quick')
    structs += bs[::(25 if tier == 'quick' else 3)]
    # builder layouts with many array elements / several array fields / long chains
    structs += [b for b in bs if b.family in ('BLDWIDE', 'BLDMANY', 'BLDNAMES')][::(3 if tier == 'quick' else 1)]
    structs.append(Struct(64, [Field([(0, 4)], 'u', arr=(8, 4), stride_explicit=False), Field([(32, 1)], 'b', arr=(32, 1), stride_explicit=False)], has_builder=True, family='BLDMULTIARR'))
    structs.append(Struct(128, [Field([(0, 1)], 'b', arr=(40, 1), stride_explicit=False), Field([(40, 8)], 'n', arr=(5, 8), stride_explicit=False),
                                Field([(80, 2)], 'u', arr=(24, 2), stride_explicit=False)], has_builder=True, family='BLDMULTIARR'))
    structs.append(Struct(128, [Field([(0, 2)], 'u', arr=(20, 2), stride_explicit=False), Field([(64, 16)], 'i', arr=(4, 16), stride_explicit=False)],
                          default=1 << 50, has_builder=True, family='BLDMULTIARR'))
    # the longest arrays a base can hold: the builder step must still be evaluable at compile time (const-eval depth / step limits)
    structs.append(Struct(128, [Field([(0, 1)], 'b', arr=(128, 1), stride_explicit=False, family='BLDLONG')], has_builder=True, family='BLDLONG'))
    structs.append(Struct(128, [Field([(0, 1)], 'u', arr=(126, 1), stride_explicit=False, family='BLDLONG'), Field([(126, 2)], 'u', family='BLDLONG')],
                          has_builder=True, family='BLDLONG'))
    structs.append(Struct(127, [Field([(0, 1)], 'b', arr=(127, 1), stride_explicit=False, family='BLDLONG')], default=1, has_builder=True, family='BLDLONG'))
    # custom-typed fields that cover the whole base (and, on native bases, the whole storage integer)
    for n in (3, 8, 16, 32, 64, 128):
        fs = [Field([(0, n)], 'c', inner_n=n, family='CUSTFULL')]
        if n in NE_WIDTHS:
            fs.append(Field([(0, n)], 'o', enum=ne_enum(n), family='CUSTFULL'))
        if n <= 3:
            fs.append(Field([(0, n)], 'e', enum=ex_enum(n), family='CUSTFULL'))
        structs.append(Struct(n, fs, family='CUSTFULL', default=(1 if n % 16 == 0 else None)))
    # range lists naming a bit twice: whatever they compute, compile time and run time must agree
    structs += [s_ for s_ in selfoverlap_structs('quick') if s_.n in (8, 12, 128)]
    # signed / non-contiguous / array samples on small bases
    structs += L.pack(8, L.noncontig(8, [2])[::(40 if tier == 'quick' else 6)], 'NC', per=10)
    structs += L.pack(8, L.arrays_full(8)[::(12 if tier == 'quick' else 2)], 'ARR', per=10)
    structs += L.pack(16, L.signed_dedicated(16)[::(3 if tier == 'quick' else 1)], 'SIGNED', per=10)
    structs += consts_set('quick')[::(60 if tier == 'quick' else 6)]
    # every other layout carries doc comments on the struct and its fields (they are forwarded to the generated functions)
    structs = [dataclasses.replace(s, ctab=True, doc=(k % 2 == 1)) for k, s in enumerate(structs)]
    eds = enum_set('quick')[::(12 if tier == 'quick' else 2)]
    return structs, eds


# ------------------------------------------------------------------------------------------------
# BEYOND: declarations that address bits at or above the declared base width (invalid by C09's rule).
# They must be rejected; C11 / C16 explore whichever of them the compiler nevertheless accepts.

def beyond_structs(tier):
    out = []
    bases = [n for n in range(1, 17)] + list(L.wide_bases(tier))
    for n in bases:
        W = storage(n)
        cands = []
        if n < W:
            cands.append(Field([(n, 1)], 'b'))
            cands.append(Field([(W - 1, 1)], 'b'))
            cands.append(Field([(n, 1)], 'u'))
            if n + 2 <= W:
                cands.append(Field([(n, 2)], 'u'))
            if n >= 1:
                cands.append(Field([(n - 1, 2)], 'u'))                     # straddles the declared top bit
            if W - n >= 3 and n >= 1:
                cands.append(Field([(n - 1, W - n + 1)], 'u' if (W - n + 1) not in NATIVE else 'n'))
            if n >= 8 and n + 1 <= W:
                cands.append(Field([(n - 7, 8)], 'i'))
                cands.append(Field([(n - 7, 8)], 'n'))
            if n >= 2:
                cands.append(Field([(n - 2, 1)], 'b', arr=(3, 1), stride_explicit=False))   # last element at bit N
                cands.append(Field([(0, 1), (n, 1)], 'u'))
                cands.append(Field([(n, 1), (0, 1)], 'u'))
            if n >= 4 and n + 1 <= W:
                cands.append(Field([(0, 1), (2, 1)], 'u', arr=(2, n - 2)))                  # second element reaches bit N
        # beyond the storage as well
        cands.append(Field([(W, 1)], 'b'))
        cands.append(Field([(W - 1, 2)], 'u')) if W >= 2 else None
        cands.append(Field([(W + 8, 1)], 'b'))
        cands.append(Field([(W - 1, 1)], 'b', arr=(2, 1), stride_explicit=False))
        for f in cands:
            if f is None:
                continue
            f.family = 'BEYOND'
            out.append(Struct(n, [f], family='BEYOND', passes=[('full', 'full')] if n <= 16 else [('alpha', 'alpha')]))
    return out


# ------------------------------------------------------------------------------------------------
# OPTIONAL: spellings the documentation does not promise to accept (attribute arguments in another order than
# `range, access, stride`) but whose meaning is unambiguous. They are compiled one by one; whichever the macro
# accepts must behave exactly like the documented spelling (C03 / C02 explore them), whichever it rejects is fine.

def optional_structs(tier):
    out = []
    orders = ('sra', 'sar', 'ars', 'asr', 'rsa')
    for n in (8, 16, 32, 128) if tier == 'quick' else (8, 12, 16, 24, 32, 64, 100, 128):
        k = 0
        for w, kind in ((1, 'b'), (1, 'u'), (2, 'u'), (4, 'u'), (8, 'n'), (8, 'i')):
            for lo in (0, 1):
                for stride in sorted({w, w + 1, 2 * w}):
                    kmax = (n - lo - w) // stride + 1
                    for K in sorted({2, kmax}):
                        if K < 2 or K > kmax:
                            continue
                        for od in orders:
                            k += 1
                            f = Field([(lo, w)], kind, arr=(K, stride), family='OPTORDER', arg_order=od,
                                      stride_sep=(':' if k % 3 == 0 else '='))
                            # u8: all states x all values; u16: the state alphabet x all values (the argument order cannot interact with the raw value)
                            out.append(Struct(n, [f], family='OPTORDER', passes=[('full', 'full')] if n <= 8 else ([('alpha', 'full')] if n <= 16 else [('alpha', 'alpha')])))
        # multi-range arrays and scalars with access first
        for od in orders:
            out.append(Struct(n, [Field([(0, 1), (2, 1)], 'u', arr=(2, 4), family='OPTORDER', arg_order=od)], family='OPTORDER',
                              passes=[('full', 'full')] if n <= 16 else [('alpha', 'alpha')]))
        # access written as two flags
        pp = [('full', 'full')] if n <= 16 else [('alpha', 'alpha')]
        out.append(Struct(n, [Field([(1, 3)], 'u', family='OPTACCESS', access_split='r, w')], family='OPTACCESS', passes=pp))
        out.append(Struct(n, [Field([(0, 1)], 'b', family='OPTACCESS', access_split='w, r')], family='OPTACCESS', passes=pp))
        out.append(Struct(n, [Field([(0, 2)], 'u', arr=(2, 3), family='OPTACCESS', access_split='r, w')], family='OPTACCESS', passes=pp))
        out.append(Struct(n, [Field([(n - 2, 2), (0, 2)], 'u', family='OPTACCESS', access_split='w, r')], family='OPTACCESS', passes=pp))
        # trailing commas
        out.append(Struct(n, [Field([(1, 3)], 'u', family='OPTCOMMA', arg_order='ras,')], family='OPTCOMMA', passes=pp))
        out.append(Struct(n, [Field([(0, 2)], 'u', arr=(3, 2), family='OPTCOMMA', arg_order='ras,')], family='OPTCOMMA', passes=pp))
        out.append(Struct(n, [Field([(0, 1)], 'b', arr=(2, 3), family='OPTCOMMA', arg_order='sra,')], family='OPTCOMMA', passes=pp))
        out.append(Struct(n, [Field([(n - 2, 2), (0, 2)], 'u', family='OPTCOMMA', arg_order='ra,')], family='OPTCOMMA', passes=pp))
        out.append(Struct(n, [Field([(1, 3)], 'u', family='OPTORDER', arg_order='ars')], family='OPTORDER', passes=[('full', 'full')] if n <= 16 else [('alpha', 'alpha')]))
        out.append(Struct(n, [Field([(n - 1, 1)], 'b', family='OPTORDER', arg_order='ars')], family='OPTORDER', passes=[('full', 'full')] if n <= 16 else [('alpha', 'alpha')]))
    return out


def selfoverlap_structs(tier):
    """C16 only: range lists that name a bit twice. The macro accepts them (no builder is offered); no property fixes the values they
    read or write, but C16 still demands that no operation panics and that every profile computes the same thing."""
    out = []
    for n in (8, 12, 16, 32, 64, 128) if tier == 'quick' else (4, 8, 9, 12, 16, 24, 32, 33, 64, 65, 100, 128):
        lists = [[(n - 4, 4), (n - 2, 2)], [(n - 2, 2), (n - 4, 4)], [(0, 4), (2, 4)] if n >= 6 else [(0, 2), (1, 2)], [(n - 3, 3), (n - 3, 3)],
                 [(0, 2), (n - 2, 2), (n - 3, 2)], [(n - 1, 1), (n - 1, 1), (n - 1, 1)], [(0, n), (n - 1, 1)] if n < 128 else [(0, 64), (32, 64)]]
        fs = []
        for rl in lists:
            w = sum(l for _, l in rl)
            if w > n or any(lo < 0 for lo, _ in rl):
                continue            # a value wider than the base is rejected by the macro (not an accepted declaration)
            for kd in L.kinds_multi(w):
                fs.append(Field(list(rl), kd, family='SELFOV'))
        out += L.pack(n, fs, 'SELFOV', per=1, passes=[('full', 'full')] if n <= 16 else [('alpha', 'alpha')], options=False)
        # arrays whose elements overlap each other (stride smaller than the element) are rejected by the macro; arrays of self-overlapping
        # elements are not
        if n >= 16:
            out += L.pack(n, [Field([(0, 3), (1, 3)], 'u', arr=(2, 8), family='SELFOV')], 'SELFOV', per=1, passes=[('full', 'full')] if n <= 16 else [('alpha', 'alpha')], options=False)
    return out


def signed_builder_structs():
    """C05: signed fields written through the builder"""
    out = []
    for n in (16, 32, 64, 128):
        for w in (8, 16, 32, 64):
            if 2 * w > n:
                continue
            K = n // w
            out.append(Struct(n, [Field([(0, w)], 'i', arr=(K, w), family='SIGNEDBLD', stride_explicit=False)], family='SIGNEDBLD', has_builder=True))
            if K - 1 >= 2:
                out.append(Struct(n, [Field([(0, w)], 'i', arr=(K - 1, w), family='SIGNEDBLD', stride_explicit=False), Field([(n - w, w)], 'n', family='SIGNEDBLD')],
                                  family='SIGNEDBLD', has_builder=True))
                out.append(Struct(n, [Field([(n - w, w)], 'n', family='SIGNEDBLD'), Field([(0, w)], 'i', arr=(K - 1, w), family='SIGNEDBLD')],
                                  default=1 << (n - 1), family='SIGNEDBLD', has_builder=True))
            out.append(Struct(n, [Field([(0, w)], 'i', family='SIGNEDBLD'), Field([(w, n - w)], 'n' if (n - w) in NATIVE else 'u', family='SIGNEDBLD')],
                              family='SIGNEDBLD', has_builder=True))
            if w + 2 <= n:
                out.append(Struct(n, [Field([(1, w)], 'i', family='SIGNEDBLD')], default=0, family='SIGNEDBLD', has_builder=True))
                h = w // 2
                out.append(Struct(n, [Field([(n - h, h), (0, h)], 'i', family='SIGNEDBLD')], default=1 << h, family='SIGNEDBLD', has_builder=True))
    return out
