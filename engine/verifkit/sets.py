"""Machine sets shared by several properties (one generated workspace per set and tier)."""
from . import layouts as L
from .model import *


def contig_set(tier):
    """C01 / C02 (+ C16): contiguous fields of every kind."""
    structs = []
    for n in range(1, 17):
        structs += L.pack(n, L.contig(n), 'CONTIG', passes=[('full', 'full')])
    if tier == 'quick':
        for n in L.BW_QUICK:
            fs = L.contig_boundary(n) + L.ladder(n) + L.edge(n)
            structs += L.pack(n, fs, 'WIDE', passes=[('alpha', 'alpha')])
    else:
        for n in range(17, 129):
            p = [('full', 'alpha'), ('alpha', 'full')] if n <= 24 else [('alpha', 'alpha')]
            structs += L.pack(n, L.contig(n), 'CONTIG', passes=p)
    return structs


def u32_full_set():
    """thorough: the u32 base with all 2^32 raw values (getters: every boundary field;
    setters: v in {0, all-ones} via the core4 value set on a smaller field list)"""
    fs = L.contig_boundary(32) + L.noncontig_boundary(32)
    return L.pack(32, fs, 'U32FULL', passes=[('full', 'core4')])


def arr_set(tier):
    structs = []
    for n in range(2, 17):
        fs = L.arrays_full(n)
        # full state space up to 12 bits in the quick tier, alphabets above
        if tier == 'quick':
            p = [('full', 'full')] if n <= 10 else [('alpha', 'full'), ('full', 'core4')] if n <= 12 else [('alpha', 'full')]
        else:
            p = [('full', 'full')]
        structs += L.pack(n, fs, 'ARR', passes=p)
    for n in (8, 16, 32, 64, 128) if tier == 'quick' else range(8, 129, 8):
        structs += L.pack(n, L.bool_arrays(n), 'ARRBOOL', passes=[('alpha', 'full')] if n > 16 else [('full', 'full')])
    for n in L.wide_bases(tier):
        structs += L.pack(n, L.arrays_boundary(n), 'ARRB', passes=[('alpha', 'alpha')])
    return structs


def nc_set(tier):
    structs = []
    if tier == 'quick':
        structs += L.pack(8, L.noncontig(8, [2]), 'NC8', passes=[('full', 'full')])
        structs += L.pack(6, L.noncontig(6, [3]), 'NC6', passes=[('full', 'full')])
        structs += L.pack(4, L.noncontig(4, [2, 3, 4]), 'NC4', passes=[('full', 'full')])
        for n in (8, 12, 16):
            structs += L.pack(n, L.ncarr(n), 'NCARR', passes=[('full', 'full')])
            structs += L.pack(n, L.noncontig_boundary(n), 'NCB', passes=[('full', 'full')])
        for n in L.BW_QUICK:
            structs += L.pack(n, L.noncontig_boundary(n) + L.ncarr(n), 'NCB', passes=[('alpha', 'alpha')])
    else:
        structs += L.pack(8, L.noncontig(8, [2, 3, 4]), 'NC8', passes=[('full', 'full')])
        structs += L.pack(8, L.bit_permutations(8), 'NCPERM', passes=[('full', 'full')])
        structs += L.pack(6, L.noncontig(6, [2, 3, 4, 5, 6]), 'NC6', passes=[('full', 'full')])
        structs += L.pack(4, L.noncontig(4, [2, 3, 4]), 'NC4', passes=[('full', 'full')])
        structs += L.pack(16, L.noncontig(16, [2]), 'NC16', passes=[('full', 'full')])
        for n in range(5, 17):
            structs += L.pack(n, L.ncarr(n) + L.noncontig_boundary(n), 'NCARR', passes=[('full', 'full')])
        for n in range(17, 129):
            structs += L.pack(n, L.noncontig_boundary(n) + L.ncarr(n), 'NCB', passes=[('alpha', 'alpha')])
    return structs


def signed_set(tier):
    structs = []
    for n in range(8, 17):
        structs += L.pack(n, L.signed_dedicated(n), 'SIGNED', passes=[('full', 'full')])
    for n in L.wide_bases(tier):
        structs += L.pack(n, L.signed_dedicated(n), 'SIGNED', passes=[('alpha', 'alpha')] if n > 24 else [('alpha', 'full'), ('full', 'alpha')])
    return structs
