"""Machine sets shared by several properties (one generated workspace per set and tier)."""
from . import layouts as L
from .model import *


def contig_set(tier):
    """C01 / C02 (+ C16): contiguous fields of every kind."""
    structs = []
    for n in range(1, 17):
        structs += L.pack(n, L.contig(n), 'CONTIG', passes=[('full', 'full')])
    if tier == 'quick':
        for n in L.BW_QUICK:
            fs = L.contig_boundary(n) + L.ladder(n) + L.edge(n)
            structs += L.pack(n, fs, 'WIDE', passes=[('alpha', 'alpha')])
    else:
        for n in range(17, 129):
            p = [('full', 'alpha'), ('alpha', 'full')] if n <= 24 else [('alpha', 'alpha')]
            structs += L.pack(n, L.contig(n), 'CONTIG', passes=p)
    return structs


def u32_full_set():
    """thorough: the u32 base with all 2^32 raw values (getters: every boundary field;
    setters: v in {0, all-ones} via the core4 value set on a smaller field list)"""
    fs = L.contig_boundary(32) + L.noncontig_boundary(32)
    return L.pack(32, fs, 'U32FULL', passes=[('full', 'core4')])


def arr_set(tier):
    structs = []
    for n in range(2, 17):
        fs = L.arrays_full(n)
        # full state space up to 12 bits in the quick tier, alphabets above
        if tier == 'quick':
            p = [('full', 'full')] if n <= 10 else [('alpha', 'full'), ('full', 'core4')] if n <= 12 else [('alpha', 'full')]
        else:
            p = [('full', 'full')]
        structs += L.pack(n, fs, 'ARR', passes=p)
    for n in (8, 16, 32, 64, 128) if tier == 'quick' else range(8, 129, 8):
        structs += L.pack(n, L.bool_arrays(n), 'ARRBOOL', passes=[('alpha', 'full')] if n > 16 else [('full', 'full')])
    for n in L.wide_bases(tier):
        structs += L.pack(n, L.arrays_boundary(n), 'ARRB', passes=[('alpha', 'alpha')])
    return structs


def nc_set(tier):
    structs = []
    if tier == 'quick':
        structs += L.pack(8, L.noncontig(8, [2]), 'NC8', passes=[('full', 'full')])
        structs += L.pack(6, L.noncontig(6, [3]), 'NC6', passes=[('full', 'full')])
        structs += L.pack(4, L.noncontig(4, [2, 3, 4]), 'NC4', passes=[('full', 'full')])
        for n in (8, 12, 16):
            structs += L.pack(n, L.ncarr(n), 'NCARR', passes=[('full', 'full')])
            structs += L.pack(n, L.noncontig_boundary(n), 'NCB', passes=[('full', 'full')])
        for n in L.BW_QUICK:
            structs += L.pack(n, L.noncontig_boundary(n) + L.ncarr(n), 'NCB', passes=[('alpha', 'alpha')])
    else:
        structs += L.pack(8, L.noncontig(8, [2, 3, 4]), 'NC8', passes=[('full', 'full')])
        structs += L.pack(8, L.bit_permutations(8), 'NCPERM', passes=[('full', 'full')])
        structs += L.pack(6, L.noncontig(6, [2, 3, 4, 5, 6]), 'NC6', passes=[('full', 'full')])
        structs += L.pack(4, L.noncontig(4, [2, 3, 4]), 'NC4', passes=[('full', 'full')])
        structs += L.pack(16, L.noncontig(16, [2]), 'NC16', passes=[('full', 'full')])
        for n in range(5, 17):
            structs += L.pack(n, L.ncarr(n) + L.noncontig_boundary(n), 'NCARR', passes=[('full', 'full')])
        for n in range(17, 129):
            structs += L.pack(n, L.noncontig_boundary(n) + L.ncarr(n), 'NCB', passes=[('alpha', 'alpha')])
    return structs


def signed_set(tier):
    structs = []
    for n in range(8, 17):
        structs += L.pack(n, L.signed_dedicated(n), 'SIGNED', passes=[('full', 'full')])
    for n in L.wide_bases(tier):
        structs += L.pack(n, L.signed_dedicated(n), 'SIGNED', passes=[('alpha', 'alpha')] if n > 24 else [('alpha', 'full'), ('full', 'alpha')])
    return structs


# ------------------------------------------------------------------------------------------------
# C07: bitenums

import itertools


def _forms(n, discs, orders=True):
    """all accepted `exhaustive` forms for a discriminant tuple (declaration order preserved)"""
    full = len(set(discs)) == (1 << n)
    out = []
    if full:
        out.append(EnumDef(n, 'true', discs, spell='='))
        out.append(EnumDef(n, 'true', discs, spell=':'))
    else:
        out.append(EnumDef(n, 'false', discs, spell='='))
        out.append(EnumDef(n, 'false', discs, spell=':'))
        out.append(EnumDef(n, 'false', discs, omit_exh=True))
    out.append(EnumDef(n, 'conditional', discs, spell='='))
    return out


def _orders(ds, allperm=False):
    ds = tuple(sorted(ds))
    if allperm:
        return [tuple(p) for p in itertools.permutations(ds)]
    res = [ds]
    if len(ds) > 1:
        res.append(tuple(reversed(ds)))
        res.append(ds[1:] + ds[:1])
        res.append(ds[-1:] + ds[:-1])       # largest first
    seen, out = set(), []
    for r in res:
        if r not in seen:
            seen.add(r)
            out.append(r)
    return out


def enum_set(tier):
    eds = []
    for n in (1, 2, 3):
        U = range(1 << n)
        for k in range(1, (1 << n) + 1):
            for ds in itertools.combinations(U, k):
                for od in _orders(ds, allperm=(n <= 2)):
                    eds += _forms(n, od)
                # conditional with a dead (#[cfg(any())]) variant whose discriminant is otherwise unused
                rest = [d for d in U if d not in ds]
                if rest:
                    eds.append(EnumDef(n, 'conditional', tuple(ds), dead=(rest[0],)))
                    if len(rest) > 1:
                        eds.append(EnumDef(n, 'conditional', tuple(ds), dead=(rest[-1], rest[0])))
    n = 4
    U = range(16)
    sizes = (1, 2, 14, 15, 16) if tier == 'quick' else range(1, 17)
    for k in sizes:
        for ds in itertools.combinations(U, k):
            if tier == 'quick' or k in (1, 2, 3, 14, 15, 16):
                for od in _orders(ds)[:2]:
                    eds += _forms(n, od)[:1]
            else:
                eds.append(_forms(n, tuple(ds))[0])
    for n in range(5, 9):
        mx = (1 << n) - 1
        full = tuple(range(1 << n))
        eds += _forms(n, full)
        eds += _forms(n, tuple(reversed(full)))[:1]
        eds += _forms(n, full[1:] + full[:1])[:1]
        eds += _forms(n, full[:-1])            # full minus one (max missing)
        eds += _forms(n, full[1:])[:1]         # zero missing
        for d in (0, 1, 1 << (n - 1), mx):
            eds += _forms(n, (d,))[:1]
        eds += _forms(n, (0, mx))
        eds += _forms(n, (mx, 0))[:1]
        eds.append(EnumDef(n, 'conditional', (0, mx), dead=(1,)))
    for n in range(9, 65):
        mx = (1 << n) - 1
        eds += _forms(n, (mx,))[:1]
        eds += _forms(n, (0, mx))[:1 if tier == 'quick' else 4]
        eds += _forms(n, (0, 1, 1 << (n - 1), mx))[:1]
        eds += _forms(n, (mx, 1 << (n - 1), 1, 0))[:1]
        if n in (9, 16, 17, 32, 33, 63, 64):
            eds += _forms(n, (0, mx))
            eds.append(EnumDef(n, 'conditional', (mx, 0), dead=(1, 2)))
    if tier == 'thorough':
        # N = 9, 10: the exhaustive enums (512 / 1024 variants)
        for n in (9, 10):
            eds += _forms(n, tuple(range(1 << n)))[:1]
    # dedupe by name
    seen, out = set(), []
    for e in eds:
        if e.name not in seen:
            seen.add(e.name)
            out.append(e)
    return out


# ------------------------------------------------------------------------------------------------
# C06: raw round trip, constants, layout

def consts_set(tier):
    structs = []
    for n in range(1, 129):
        m = mask(n)
        aa = 0xAAAAAAAAAAAAAAAAAAAAAAAAAAAAAAAA & m
        # fields cover only bit 0 (bool) and, when there is room, bits 1..=2: every other default bit is "covered by no field"
        def fields():
            fs = [Field([(0, 1)], 'b', family='CONST')]
            if n >= 3:
                fs.append(Field([(1, 2)], 'u', family='CONST'))
            return fs
        structs.append(Struct(n, fields(), family='CONST'))
        vals = []
        for v in (0, 1, m, aa, m & ~0x7, (1 << (n - 1)), 0x0123456789ABCDEFFEDCBA9876543210 & m):
            if v not in vals:
                vals.append(v)
        k = 0
        for v in vals:
            for form in ('lit', 'const'):
                for sep in ('=', ':'):
                    k += 1
                    # quick: every value in one (rotating) form/spelling, boundary values in all four; thorough: full product
                    if tier == 'quick' and v not in (m, m & ~0x7) and (k + n) % 4 != 0:
                        continue
                    structs.append(Struct(n, fields(), default=v, default_form=form, default_sep=sep, family='CONSTDEF'))
    return structs


# ------------------------------------------------------------------------------------------------
# C08: enum- and custom-typed fields

def ex_enum(w):
    full = tuple(range(1 << w))
    return EnumDef(w, 'true', full[1:] + full[:1])


def ne_enum(w):
    mx = (1 << w) - 1
    if w == 1:
        return EnumDef(1, 'false', (1,))
    ds = [mx, 0, 1 << (w - 1)]
    if w >= 3:
        ds.append(1)
    return EnumDef(w, 'false', tuple(ds), omit_exh=(w % 2 == 0))


NE_WIDTHS = (1, 2, 3, 4, 5, 6, 7, 8, 9, 16, 17, 32, 33, 63, 64)
IN_WIDTHS = (1, 3, 4, 8, 12, 16, 24, 32, 64, 100, 128)


def custom_fields(n, tier):
    out = []
    exw = range(1, 5) if tier == 'quick' else range(1, 9)

    def mk(kind, w, **kw):
        if kind == 'e':
            return dict(kind='e', enum=ex_enum(w), **kw)
        if kind == 'o':
            return dict(kind='o', enum=ne_enum(w), **kw)
        return dict(kind='c', inner_n=w, **kw)

    cands = [('e', w) for w in exw] + [('o', w) for w in NE_WIDTHS] + [('c', w) for w in IN_WIDTHS]
    for kind, w in cands:
        if w > n:
            continue
        fam = {'e': 'CUSTEX', 'o': 'CUSTOPT', 'c': 'CUSTNEST'}[kind]
        for lo in sorted({0, 1, n - w} & set(range(0, n - w + 1))):
            out.append(Field([(lo, w)], family=fam, **mk(kind, w)))
        # arrays
        for stride in (w, w + 1):
            kmax = (n - w) // stride + 1
            for K in sorted({2, kmax}):
                if 2 <= K <= kmax:
                    out.append(Field([(0, w)], arr=(K, stride), family=fam + 'ARR', stride_explicit=(stride != w), **mk(kind, w)))
                    if (n - w - (K - 1) * stride) >= 1:
                        out.append(Field([(1, w)], arr=(K, stride), family=fam + 'ARR', **mk(kind, w)))
        # split over two ranges, both orders
        if w >= 2 and w + 1 <= n:
            h = w // 2
            out.append(Field([(0, h), (n - (w - h), w - h)], family=fam + 'NC', **mk(kind, w)))
            out.append(Field([(n - (w - h), w - h), (0, h)], family=fam + 'NC', **mk(kind, w)))
            out.append(Field([(1, w - h), (w - h + 1, h)], family=fam + 'NC', **mk(kind, w)) if w + 1 <= n else None)
            # multi-range arrays
            span = w + 1
            if 2 * span <= n:
                out.append(Field([(h + 1, w - h), (0, h)], arr=(2, span), family=fam + 'NCARR', **mk(kind, w)))
    return [f for f in out if f is not None]


def custom_set(tier):
    structs = []
    for n in range(1, 17):
        structs += L.pack(n, custom_fields(n, tier), 'CUSTOM', per=30, passes=[('full', 'full')])
    for n in L.wide_bases(tier):
        structs += L.pack(n, custom_fields(n, tier), 'CUSTOM', per=30, passes=[('alpha', 'alpha')])
    return structs
