"""declmc — declaration-space checker: bounded-exhaustive enumeration of declarations / probe programs,
real rustc + the real macro as the step function, reference models as oracles."""
import json, os, subprocess, sys, time, shutil, hashlib
from concurrent.futures import ThreadPoolExecutor
from . import build as B

PRELUDE = ("#![allow(dead_code, unused_imports, unused_variables, unused_mut, non_camel_case_types, unused_parens, "
           "non_upper_case_globals, deprecated, unreachable_patterns, unreachable_code)]\n"
           "use bitbybit::{bitenum, bitfield};\nuse arbitrary_int::*;\n")


def carrier(host_release=False):
    """build the macro (and arbitrary-int) through cargo and return the artefact paths:
    {'bitbybit': .so, 'arbitrary_int': .rlib, 'deps': dir}"""
    name = "carrier_rel" if host_release else "carrier"
    ws = os.path.join(B.WORK, name)
    os.makedirs(os.path.join(ws, "src"), exist_ok=True)
    prof = ""
    if host_release:
        # build-override controls the profile of proc-macros: optimised, overflow checks off inside the macro
        prof = "\n[profile.dev.build-override]\nopt-level = 3\noverflow-checks = false\ndebug-assertions = false\n"
    B.write_if_changed(os.path.join(ws, "Cargo.toml"), f"""[package]
name = "{name}"
version = "0.1.0"
edition = "2021"

[dependencies]
bitbybit = {{ path = "{B.REPO}/bitbybit" }}
arbitrary-int = "=1.3.0"
{prof}
[workspace]
""")
    B.write_if_changed(os.path.join(ws, "src", "lib.rs"), "pub use arbitrary_int::u3;\npub use bitbybit::bitfield;\n")
    lockf = os.path.join(ws, "Cargo.lock")
    if not os.path.exists(lockf):
        shutil.copy(os.path.join(B.ENGINE, "regmc", "Cargo.lock"), lockf)
    p = subprocess.run(["cargo", "build", "--offline", "--message-format=json"], cwd=ws, env=B.env(), capture_output=True, text=True)
    if p.returncode != 0:
        raise B.MachineryError("the bitbybit macro crate itself does not build:\n" + p.stderr[-3000:])
    arts = {}
    for l in p.stdout.splitlines():
        try:
            d = json.loads(l)
        except ValueError:
            continue
        if d.get("reason") != "compiler-artifact":
            continue
        nm = d["target"]["name"]
        for f in d["filenames"]:
            if nm == "bitbybit" and f.endswith(".so"):
                arts["bitbybit"] = f
            if nm in ("arbitrary-int", "arbitrary_int") and f.endswith(".rlib"):
                arts["arbitrary_int"] = f
    if "bitbybit" not in arts or "arbitrary_int" not in arts:
        raise B.MachineryError("carrier build did not report the macro artefacts")
    arts["deps"] = os.path.dirname(arts["arbitrary_int"])
    return arts


class Item:
    """one enumerated program fragment: `text` (Rust items, may span several lines); errors whose primary span
    falls into its lines are attributed to it. sub-items (probes) get their own line ranges."""
    __slots__ = ("key", "text", "meta", "probes")

    def __init__(self, key, text, meta=None, probes=None):
        self.key = key
        self.text = text
        self.meta = meta
        self.probes = probes or []   # list of (probe_key, one-line text)


def compile_items(arts, items, tag, emit="metadata", nshards=64, jobs=16, extra_flags=(), prelude=PRELUDE, edition="2021", crate_type="lib",
                  mod_doc=False, cap_lints=True, keep_files=None, mod_inner="", mod_use="use super::*;"):
    """Compile all items, sharded over rustc processes. Returns dict key -> list of (code, message, level)
    for errors; probe keys are (item_key, probe_key)."""
    out_dir = os.path.join(B.WORK, "declmc", tag)
    shutil.rmtree(out_dir, ignore_errors=True)
    os.makedirs(out_dir, exist_ok=True)
    nshards = max(1, min(nshards, len(items)))
    shards = [[] for _ in range(nshards)]
    for j, it in enumerate(items):
        shards[j % nshards].append((j, it))

    def run(si):
        lines = prelude.rstrip("\n").split("\n")
        lmap = []   # (start, end, key)
        for j, it in shards[si]:
            if mod_doc:
                lines.append("/// module")
            lines.append(f"pub mod m{j} {{ {mod_use} {mod_inner}")
            start = len(lines) + 1
            body = it.text.split("\n")
            lines.extend(body)
            lmap.append((start, len(lines), it.key))
            for pk, ptxt in it.probes:
                lines.append(ptxt)
                lmap.append((len(lines), len(lines), (it.key, pk)))
            lines.append("}")
        fn = os.path.join(out_dir, f"s{si}.rs")
        with open(fn, "w") as f:
            f.write("\n".join(lines) + "\n")
        cmd = ["rustc", "--edition", edition, "--crate-type", crate_type, f"--emit={emit}", "--error-format=json", "-o",
               os.path.join(out_dir, f"s{si}.out"), "-L", f"dependency={arts['deps']}", "--extern", f"bitbybit={arts['bitbybit']}",
               "--extern", f"arbitrary_int={arts['arbitrary_int']}", *(("--cap-lints", "warn") if cap_lints else ()), *extra_flags, fn]
        if keep_files is not None:
            keep_files.append(fn)
        p = subprocess.run(cmd, capture_output=True, text=True, env=dict(os.environ, RUSTC_BOOTSTRAP=os.environ.get("RUSTC_BOOTSTRAP", "0")))
        errs, unattributed = {}, []
        starts = sorted(lmap)
        for l in p.stderr.splitlines():
            if not l.startswith("{"):
                if "error" in l or "panicked" in l:
                    unattributed.append(l[:300])
                continue
            try:
                d = json.loads(l)
            except ValueError:
                continue
            if d.get("level") != "error":
                continue
            hit = False
            for s in d.get("spans", []):
                if not s.get("is_primary"):
                    continue
                # a span inside a macro expansion: walk out to the call site in our file
                ss = s
                while ss and ss.get("file_name") != fn and ss.get("expansion"):
                    ss = ss["expansion"].get("span")
                if not ss or ss.get("file_name") != fn:
                    continue
                ln = ss["line_start"]
                for a, b, k in starts:
                    if a <= ln <= b:
                        errs.setdefault(k, []).append(((d.get("code") or {}).get("code"), d.get("message", "")[:200]))
                        hit = True
                        break
            if not hit and d.get("spans"):
                unattributed.append(d.get("message", "")[:300])
            elif not hit and "aborting due to" not in d.get("message", "") and "could not compile" not in d.get("message", ""):
                unattributed.append(d.get("message", "")[:300])
        if p.returncode != 0 and not errs and not unattributed:
            unattributed.append(f"rustc exit {p.returncode}: {p.stderr[-500:]}")
        if p.returncode not in (0, 1):
            unattributed.append(f"rustc exit status {p.returncode} (crash?): {p.stderr[-500:]}")
        return errs, unattributed, p.returncode

    errs, unatt = {}, []
    with ThreadPoolExecutor(jobs) as ex:
        for e, u, rc in ex.map(run, range(nshards)):
            errs.update(e)
            unatt += u
    return errs, unatt


def setup():
    """build the expansion scanner (C18) and the macro carrier"""
    p = subprocess.run(["cargo", "build", "--offline", "--release"], cwd=os.path.join(B.ENGINE, "expscan"), env=B.env(), capture_output=True, text=True)
    if p.returncode != 0:
        raise B.MachineryError("expscan does not build: " + p.stderr[-2000:])
    carrier()
    print("setup: expscan and the macro carrier built")


def replay(rp):
    """recompile the stored program and compare the verdict with the stored expectation"""
    arts = carrier()
    it = Item("replay", rp["text"], probes=[(p["key"], p["text"]) for p in rp.get("probes", [])])
    errs, unatt = compile_items(arts, [it], "replay", emit=rp.get("emit", "metadata"), nshards=1, extra_flags=rp.get("flags", []),
                                prelude=rp.get("prelude", PRELUDE))
    print("replay program:\n" + rp["text"])
    for p in rp.get("probes", []):
        print("  probe:", p["text"])
    bad = False
    want = rp["expect"]          # {"decl": "accept"|"reject", "probes": {key: "accept"|"reject"|code}}
    got_decl = "reject" if "replay" in errs else "accept"
    print(f"declaration: expected {want.get('decl')}, rustc says {got_decl} {errs.get('replay', '')}")
    if want.get("decl") and want["decl"] != got_decl:
        bad = True
    for pk, w in (want.get("probes") or {}).items():
        e = errs.get(("replay", pk))
        got = "accept" if not e else "reject"
        ok = (w == got) or (w not in ("accept", "reject") and e and any(c == w for c, _ in e))
        print(f"probe {pk}: expected {w}, rustc says {got} {e or ''}")
        if not ok:
            bad = True
    if unatt:
        print("unattributed diagnostics:", unatt[:3])
    if bad:
        print(f"VIOLATION property={rp.get('property')} replay={rp.get('_path')}")
        return 1
    print("replay: does not reproduce on the current tree")
    return 0
