"""Reference models written from the property statements (DESIGN.md section 4)."""
from .model import *


# ---- BLD (C14): builder existence -------------------------------------------------------------
def builder_offered(s: Struct) -> bool:
    """offered <=> no register bit is covered by more than one (writable field, element, range)
    and (default declared or writable bits = all N bits)"""
    m = 0
    for f in s.fields:
        if not f.writable:
            continue
        for i in range(f.arr[0] if f.arr else 1):
            sh = i * f.arr[1] if f.arr else 0
            for lo, l in f.ranges:
                b = mask(l) << (lo + sh)
                if m & b:
                    return False
                m |= b
    return s.default is not None or m == mask(s.n)


# ---- ACC (C09): validity of one field of a bitfield declaration ---------------------------------
def base_valid(base: str) -> bool:
    if base in ('u8', 'u16', 'u32', 'u64', 'u128'):
        return True
    if base.startswith('u') and base[1:].isdigit() and not base[1:].startswith('0'):
        n = int(base[1:])
        return 1 <= n <= 127 and n not in NATIVE
    return False


def type_width(ty: str):
    """'bool' -> 'bool'; uN -> N (1..=128 supported: native or arbitrary-int 1..=127); iN only native"""
    if ty == 'bool':
        return 'bool'
    # custom types of the C09 grammar: CE<w> (exhaustive enum), Option<CQ<w>> (non-exhaustive enum), CN<w> (nested bitfield)
    for pre, suf in (("CE", ""), ("Option<CQ", ">"), ("CN", "")):
        if ty.startswith(pre) and ty.endswith(suf) and ty[len(pre):len(ty) - len(suf)].isdigit():
            return int(ty[len(pre):len(ty) - len(suf)])
    if ty[0] in 'ui' and ty[1:].isdigit():
        w = int(ty[1:])
        if ty[0] == 'i':
            return w if w in NATIVE else None
        if w in NATIVE or 1 <= w <= 127:
            return w
    return None


def field_valid(n, form, ranges, ty, K, stride) -> bool:
    """ranges: list of (lo, hi) inclusive as written; form: 'bit' | 'bits'; K: array count or None;
    stride: explicit stride or None"""
    for lo, hi in ranges:
        if lo > hi:
            return False
    if form == 'bit' and len(ranges) == 1 and ranges[0][0] != ranges[0][1]:
        return False
    # form 'list1' (a range list with one member) is one contiguous range
    nbits = sum(hi - lo + 1 for lo, hi in ranges)
    tw = type_width(ty)
    if tw is None:
        return False
    if tw == 'bool':
        if not (nbits == 1 and len(ranges) == 1):
            return False
    elif tw != nbits:
        return False
    top = max(hi for lo, hi in ranges)
    if K is not None:
        if K < 2:
            return False
        if len(ranges) == 1:
            s = stride if stride is not None else nbits
            if s < nbits:
                return False
        else:
            if stride is None:
                return False
            s = stride
        top += (K - 1) * s
    elif stride is not None:
        return False          # stride is only meaningful for arrays
    return top < n


# ---- ENUMACC (C10) -----------------------------------------------------------------------------
def enum_valid(n, discs, exh, cfg, malformed=None) -> bool:
    """discs: discriminants of all variants (incl. cfg'd ones); exh in {'true','false','conditional',None};
    cfg: True if some variant carries #[cfg]"""
    if not (1 <= n <= 64):
        return False
    if malformed:
        return False
    if any(d >= (1 << n) or d < 0 for d in discs):
        return False
    if len(set(discs)) != len(discs):
        return False
    cnt = len(discs)
    if cfg and exh != 'conditional':
        return False
    if exh == 'true':
        return cnt == (1 << n)
    if exh in ('false', None):
        return cnt < (1 << n)
    return exh == 'conditional'
