"""declmc property drivers: C09, C10, C14, C17, C18."""
import json, os, time, itertools
from . import build as B, core, declmc as D, declspace as S, oracle
from .model import *

ASSUME_DECL = [
    "rustc 1.95 is the acceptor; verdicts are read structurally from its JSON diagnostics (level, primary span -> declaration, error codes)",
    "the reference model is a transcription of the property statement; declarations the statement does not determine are not enumerated",
    "the declaration space is infinite: the bounded grammar enumerated is listed under coverage.bounds",
]


def msg_class(m):
    """diagnostic text with numbers and identifiers in quotes removed: used only to count distinct outcome classes"""
    import re
    return re.sub(r"\d+|`[^`]*`|'[^']*'", "#", m)[:80]


def decl_replay(text, expect_decl, probes=None, expect_probes=None, emit="metadata", flags=None, prelude=None):
    r = {"engine": "declmc", "text": text, "probes": [{"key": k, "text": t} for k, t in (probes or [])],
         "expect": {"decl": expect_decl, "probes": expect_probes or {}}, "emit": emit, "flags": flags or []}
    if prelude:
        r["prelude"] = prelude
    return r


def c09(tier):
    chk = core.Check('C09', tier)
    chk.assumptions = ASSUME_DECL
    decls = S.c09_declarations(tier)
    configs = [("dev", False)] + ([("release-host", True)] if tier == 'thorough' else [])
    nvalid = 0
    outcomes = set()
    optional_rejected = 0
    for cname, rel in configs:
        arts = D.carrier(host_release=rel)
        items = [D.Item(j, S.emit_field_decl(d)) for j, d in enumerate(decls)]
        PRE = D.PRELUDE + S.c09_prelude()
        # declarations without any field (brace and unit form, with and without a default): nothing in them can violate a layout rule
        empties = []
        for base in ("u1", "u8", "u12", "u32", "u64", "u100", "u128"):
            for form in ("{}", ";"):
                for dflt in ("", ", default = 1", ", default: 0", ", debug", ", debug, default = 1", ", default = 1, debug"):
                    empties.append(f"#[bitfield({base}{dflt})] pub struct S{'' if form == ';' else ' '}{form}")
        ee, eu = D.compile_items(arts, [D.Item(j, t, probes=[("use", "pub fn use_all(s: S) -> S { S::new_with_raw_value(s.raw_value()) }")]) for j, t in enumerate(empties)],
                                 f"c09-{cname}-empty", emit="link", nshards=4, prelude=PRE)
        if eu:
            raise B.MachineryError(f"C09 field-less declarations: unattributed diagnostics: {eu[:3]}")
        chk.states += len(empties)
        chk.transitions += len(empties)
        chk.validated += len(empties)
        chk.programs += len(empties)
        for j, t in enumerate(empties):
            e = ee.get(j) or ee.get((j, "use"))
            if e:
                chk.add_violation(f"valid but rejected [{cname}]: {t}", "valid_rejected", f"a bitfield declaration without fields is rejected ({cname} macro build): {t} :: {e[0]}",
                                  decl_replay(t, "accept", [("use", "pub fn use_all(s: S) -> S { S::new_with_raw_value(s.raw_value()) }")], {"use": "accept"}, emit="link", prelude=PRE))
        errs, unatt = D.compile_items(arts, items, f"c09-{cname}-p1", emit="metadata", nshards=64, prelude=PRE)
        if unatt:
            raise B.MachineryError(f"C09 pass 1: diagnostics that could not be attributed to a declaration: {unatt[:3]}")
        chk.states += len(decls)
        chk.transitions += len(decls)
        chk.validated += len(decls)
        chk.programs += len(decls)
        accepted_valid = []
        acc = rej = 0
        for j, d in enumerate(decls):
            v = S.decl_valid(d)
            accepted = j not in errs
            outcomes.add((v, accepted, None if accepted else msg_class(errs[j][0][1])))
            acc += accepted
            rej += (not accepted)
            text = S.emit_field_decl(d)
            if v and not accepted and not S.decl_order_documented(d):
                optional_rejected += 1        # an undocumented argument order may be rejected
            elif v and not accepted:
                chk.add_violation(f"valid but rejected [{cname}]: {text}", "valid_rejected",
                                  f"valid declaration rejected ({cname} macro build): {text} :: {errs[j][0]}",
                                  decl_replay(text, "accept", prelude=PRE))
            elif (not v) and accepted:
                chk.add_violation(f"invalid but accepted [{cname}]: {text}", "invalid_accepted",
                                  f"invalid declaration accepted ({cname} macro build): {text}", decl_replay(text, "reject", prelude=PRE))
            elif v and accepted:
                accepted_valid.append((j, d))
        nvalid = len(accepted_valid)
        chk.per_family[f"decl:{cname}"] = {"fields": len(decls), "transitions": len(decls), "states": len(decls), "violations": 0}
        chk.extra[f"accepted_{cname}"] = acc
        chk.extra[f"rejected_{cname}"] = rej
        chk.extra["valid_declarations_in_undocumented_argument_order_rejected"] = optional_rejected
        # pass 2: the accepted valid declarations alone, with a use of every accessor, through codegen
        items2 = [D.Item(j, S.emit_field_decl(d), probes=[("use", S.use_probe(d))]) for j, d in accepted_valid]
        errs2, unatt2 = D.compile_items(arts, items2, f"c09-{cname}-p2", emit="link", nshards=32, prelude=PRE)
        if unatt2:
            raise B.MachineryError(f"C09 pass 2: unattributed diagnostics: {unatt2[:3]}")
        chk.transitions += len(items2)
        chk.validated += len(items2)
        for j, d in accepted_valid:
            e = errs2.get(j) or errs2.get((j, "use"))
            if e:
                text = S.emit_field_decl(d)
                chk.add_violation(f"valid but unusable [{cname}]: {text}", "valid_unusable",
                                  f"valid declaration accepted, but its accessors do not build: {text} :: {e[0]}",
                                  decl_replay(text, "accept", [("use", S.use_probe(d))], {"use": "accept"}, emit="link", prelude=PRE))
        if cname == "dev":
            for j, d in (accepted_valid[:2] + accepted_valid[len(accepted_valid) // 2: len(accepted_valid) // 2 + 1]):
                chk.sample({"declaration": S.emit_field_decl(d), "model": "valid", "rustc": "accepted"})
            rejs = [j for j in range(len(decls)) if j in errs]
            for j in rejs[:1] + rejs[len(rejs) // 2: len(rejs) // 2 + 2]:
                chk.sample({"declaration": S.emit_field_decl(decls[j]), "model": "invalid", "rustc": f"rejected: {errs[j][0][1][:100]}"})
    chk.distinct_outcomes = len(outcomes)     # distinct (model verdict, rustc verdict, diagnostic class) triples observed
    if nvalid == 0 or nvalid == len(decls):
        core.vacuous("C09: all declarations on one side of the validity rule")
    chk.bounds.append("one-field declarations: full product for bases " + ("u3..u8" if tier == 'quick' else "u2..u12") +
                      " (lo,hi in [0,N+1] incl. lo>hi; bit/bits form; types bool,u(w-1),u(w),u(w+1),iN; array K in {none,1,2,3}; stride in {omitted,w-1,w,w+1,N}; "
                      "two-range lists over a boundary set); boundary product for " + ("u16,u12,u32,u24,u64,u40,u128,u100,u127,u1" if tier == 'quick' else "every supported base") +
                      " (positions around 0,N-1,N,N+1,W-1,W,W+1; native widths; arrays ending at N-2..W); unsupported bases; both directions; "
                      "array declarations also with the attribute arguments in an undocumented order (stride or access first): for these only 'invalid => rejected' is demanded; "
                      "accepted valid declarations recompiled alone with a use of every accessor through codegen" +
                      ("; macro built with and without overflow checks" if tier == 'thorough' else ""))
    return chk.finish()


from .props import PROPS
PROPS['C09'] = c09


def c10(tier):
    chk = core.Check('C10', tier)
    chk.assumptions = ASSUME_DECL + ["the run-time consequences for accepted enums (total, non-panicking conversions) are C07's subject and are swept there"]
    decls = S.c10_declarations(tier)
    arts = D.carrier()
    items = [D.Item(j, S.emit_enum_decl(d)) for j, d in enumerate(decls)]
    errs, unatt = D.compile_items(arts, items, "c10-p1", emit="metadata", nshards=64)
    if unatt:
        raise B.MachineryError(f"C10: diagnostics that could not be attributed to a declaration: {unatt[:3]}")
    chk.states += len(decls)
    chk.transitions += len(decls)
    chk.validated += len(decls)
    chk.programs += len(decls)
    acc = 0
    valid_acc = []
    outcomes = set()
    optional_rejected = 0
    for j, d in enumerate(decls):
        v = S.enum_decl_valid(d)
        accepted = j not in errs
        outcomes.add((v, accepted, None if accepted else msg_class(errs[j][0][1])))
        acc += accepted
        text = S.emit_enum_decl(d)
        if v and not accepted and not S.enum_decl_documented_order(d):
            optional_rejected += 1
        elif v and not accepted:
            chk.add_violation(f"valid bitenum rejected: {text}", "valid_rejected", f"valid bitenum rejected: {text} :: {errs[j][0]}", decl_replay(text, "accept"))
        elif (not v) and accepted:
            chk.add_violation(f"invalid bitenum accepted: {text}", "invalid_accepted", f"invalid bitenum accepted: {text}", decl_replay(text, "reject"))
        elif v and accepted:
            valid_acc.append((j, d))
    chk.extra["valid_enums_in_undocumented_argument_order_rejected"] = optional_rejected
    # pass 2: accepted valid enums with a use of both conversions, through codegen
    def use(d):
        return "pub fn use_all(e: E) -> bool { let r = e.raw_value(); let _ = E::new_with_raw_value(r); true }"
    items2 = [D.Item(j, S.emit_enum_decl(d), probes=[("use", use(d))]) for j, d in valid_acc]
    errs2, unatt2 = D.compile_items(arts, items2, "c10-p2", emit="link", nshards=32)
    if unatt2:
        raise B.MachineryError(f"C10 pass 2: unattributed diagnostics: {unatt2[:3]}")
    chk.transitions += len(items2)
    chk.validated += len(items2)
    for j, d in valid_acc:
        e = errs2.get(j) or errs2.get((j, "use"))
        if e:
            text = S.emit_enum_decl(d)
            chk.add_violation(f"valid bitenum unusable: {text}", "valid_unusable", f"valid bitenum accepted but its conversions do not build: {text} :: {e[0]}",
                              decl_replay(text, "accept", [("use", use(d))], {"use": "accept"}, emit="link"))
    chk.extra["accepted"] = acc
    chk.extra["rejected"] = len(decls) - acc
    for j, d in valid_acc[:2] + valid_acc[len(valid_acc) // 2:len(valid_acc) // 2 + 1]:
        chk.sample({"declaration": S.emit_enum_decl(d), "model": "valid", "rustc": "accepted"})
    rejs = [j for j in range(len(decls)) if j in errs]
    for j in rejs[:1] + rejs[len(rejs) // 2: len(rejs) // 2 + 2]:
        chk.sample({"declaration": S.emit_enum_decl(decls[j]), "model": "invalid", "rustc": f"rejected: {errs[j][0][1][:100]}"})
    chk.distinct_outcomes = len(outcomes)
    if not valid_acc or acc == len(decls):
        core.vacuous("C10: all declarations on one side of the rule")
    chk.bounds.append("N in {1,2,3}" + (" and 4 (sizes <=3, >=15)" if tier == 'thorough' else "") + ": every discriminant set drawn from [0, 2^N+1] of every size 1..2^N+1, in every declaration order for N<=2 and 4-6 orders for N=3, "
                      "x exhaustive in {true,false,conditional,omitted} x {=, :} x {no cfg variant, one cfg'd variant}; duplicates; malformed variants (missing / non-literal / negative / constant discriminant); "
                      "storage boundaries N in {4,5,7,8,9,15,16,17,31,32,33,63,64} with {0},{max},{max+1},{0,max},full,full-1,full+1 in several orders; sizes u0,u65,u100,u127,u128")
    return chk.finish()


PROPS['C10'] = c10


def c14(tier):
    chk = core.Check('C14', tier)
    chk.assumptions = ASSUME_DECL + ["a probe counts as rejected when rustc reports an error inside that probe function (any code; the codes seen are listed under coverage.rejection_error_codes); "
                                     "the argument expressions are validated by the full-chain probe of the same struct, which must compile"]
    structs = []
    structs += S.plain_structs(2, 3)
    structs += S.plain_structs(3, 3)
    if tier == 'thorough':
        structs += S.plain_structs(4, 2) + S.plain_structs(4, 3, accesses=('rw', 'r'))
    fam = S.bld_families()
    structs += fam
    arts = D.carrier()
    # representative layouts for the full call-sequence enumeration: every 40th offered struct with <= 3 writable fields
    items, meta = [], []
    n_allseq = 0
    for j, s in enumerate(structs):
        offered = oracle.builder_offered(s)
        nw = sum(1 for f in s.fields if f.writable)
        allseq = offered and nw <= 3 and nw >= 1 and (j % 97 == 0 or (s.family not in ('PLAIN2', 'PLAIN3', 'PLAIN4') and j % 5 == 0)) and n_allseq < (40 if tier == 'quick' else 400)
        n_allseq += allseq
        probes = S.bld_probes(s, all_sequences=allseq)
        ptxt = []
        for k, sq in probes:
            body = "let _ = S::builder();" if sq is None else f"let _ = {S.seq_text(s, sq)};"
            ptxt.append((k, f"pub fn p_{k}() {{ {body} }}"))
        items.append(D.Item(j, S.bld_struct_text(s), probes=ptxt))
        meta.append((s, offered, probes))
    errs, unatt = D.compile_items(arts, items, "c14", emit="metadata", nshards=128)
    if unatt:
        raise B.MachineryError(f"C14: diagnostics that could not be attributed: {unatt[:3]}")
    nprobes = 0
    nexpect_fail = 0
    off_cnt = 0
    codes = {}
    outcomes = set()
    for j, (s, offered, probes) in enumerate(meta):
        text = S.bld_struct_text(s)
        off_cnt += offered
        if j in errs:
            chk.add_violation(f"builder layout declaration rejected: {text}", "decl_rejected", f"declaration of a builder layout does not compile: {text} :: {errs[j][0]}",
                              decl_replay(text, "accept"))
            continue
        for (k, sq), (_, ptext) in zip(probes, items[j].probes):
            nprobes += 1
            e = errs.get((j, k))
            failed = bool(e)
            if sq is None:
                expect_ok = offered
            elif not offered:
                expect_ok = False
            else:
                expect_ok = S.chain_automaton(s, sq)
            nexpect_fail += (not expect_ok)
            outcomes.add((k.rstrip('0123456789'), offered, expect_ok, failed))
            bad = None
            if expect_ok and failed:
                bad = f"must compile but is rejected ({e[0]})"
            elif (not expect_ok) and not failed:
                bad = "must not compile but is accepted"
            elif (not expect_ok) and failed:
                for c, _ in e:
                    codes[c] = codes.get(c, 0) + 1
            if bad:
                what = ("builder_exists" if sq is None else "typestate") if offered or sq is None else "builder_offered_unsound"
                chk.add_violation(f"{text} :: {ptext}", what, f"{what}: {text} :: {ptext} {bad} (model: builder {'offered' if offered else 'not offered'})",
                                  decl_replay(text, "accept", [(k, ptext)], {k: "accept" if expect_ok else "reject"}))
    chk.states += len(structs)
    chk.programs += len(structs) + nprobes
    chk.transitions += nprobes + len(structs)
    chk.validated += nprobes
    chk.extra.update({"structs": len(structs), "probes": nprobes, "probes_expected_to_fail": nexpect_fail, "structs_with_builder_by_model": off_cnt,
                      "structs_with_full_call_sequence_enumeration": n_allseq, "rejection_error_codes": codes})
    per = {}
    for s, offered, probes in meta:
        e = per.setdefault(s.family, {"fields": 0, "transitions": 0, "states": 0, "violations": 0})
        e["states"] += 1
        e["transitions"] += len(probes)
        e["fields"] += len(s.fields)
    chk.per_family = per
    chk.distinct_outcomes = len(outcomes)
    for j in (0, len(meta) // 3, 2 * len(meta) // 3, len(meta) - 1, len(meta) - 200):
        s, offered, probes = meta[j]
        k, sq = probes[min(2, len(probes) - 1)]
        chk.sample({"declaration": S.bld_struct_text(s), "model_builder_offered": offered, "probe": items[j].probes[min(2, len(probes) - 1)][1],
                    "model_accepts": (offered if sq is None else (offered and S.chain_automaton(s, sq)))})
    if off_cnt == 0 or off_cnt == len(structs) or nexpect_fail == 0:
        core.vacuous("C14: no variation in builder existence / probe verdicts")
    chk.bounds.append("existence: bases u2 and u3 every struct of 1-3 fields (any range x access in {r,w,rw,none}) x {default, none}" +
                      ("; base u4 every struct of 1-2 fields and every 3-field struct with access in {rw, r}" if tier == 'thorough' else "") +
                      "; families: multi-range arrays with adjacent / non-adjacent element overlap and interleaving, complete covers by arrays, array vs scalar overlap, "
                      "self-overlapping range lists (all pairs on u4, boundary pairs on u8, three-range lists), read-only / write-only / unspecified gaps, completeness vs declared (not storage) width; "
                      "type-state: full chain, every proper prefix, every omission, adjacent swaps, duplicate step, double build; every call sequence up to length k+1 for representative layouts")
    return chk.finish()


PROPS['C14'] = c14


def types_prelude(structs):
    """enum and nested-bitfield definitions the fields refer to (through the real macros)"""
    from . import rustgen as R
    enums, inners = R.required_types(structs)
    out = []
    for name in sorted(enums):
        out.append(R.enum_decl(enums[name], derive_debug=True))
        out.append(f"pub type A{name} = {name};")
    for n, _ in sorted(inners):
        out.append(R.inner_decl(n, debug=True))
        out.append(f"pub type A{R.inner_name(n)} = {R.inner_name(n)};")
    return "\n".join(out) + "\n"


def c17(tier):
    from . import rustgen as R
    chk = core.Check('C17', tier)
    chk.assumptions = ASSUME_DECL + ["an absent member counts as absent when rustc reports an error inside its probe function (codes listed under coverage.rejection_error_codes; the same argument expressions compile where the member is present); the dynamic half (read-only bits cannot change) is C02's frame condition"]
    cases = S.c17_structs(tier)
    arts = D.carrier()
    prelude = D.PRELUDE + types_prelude([s for _, s in cases])
    items, meta = [], []
    for j, (kname, s) in enumerate(cases):
        probes = S.c17_probes(s)
        text = R.struct_decl(s)
        if j % 5 == 3:
            # the struct is `pub(super)` / `pub(in path)` inside a nested module and is used from the parent: the accessors are `pub`
            # methods of that type, so the access rules - not the struct's visibility - decide what the parent can call
            vis = 'pub(super)' if j % 2 else 'pub(in super)'
            inner = text.replace("] pub struct S", f"] {vis} struct S", 1)
            text = "pub mod inner { use super::*; " + inner.replace("\n", " ") + " } use inner::S;"
        items.append(D.Item(j, text, probes=[(k, t) for k, t, _ in probes]))
        meta.append((kname, s, probes))
    errs, unatt = D.compile_items(arts, items, "c17", emit="metadata", nshards=32, prelude=prelude)
    if unatt:
        raise B.MachineryError(f"C17: diagnostics that could not be attributed: {unatt[:3]}")
    nprobes = nfail = 0
    codes = {}
    outcomes = set()
    debug_rejected = 0
    for j, (kname, s, probes) in enumerate(meta):
        text = items[j].text
        f0 = [x for x in s.fields if x.family == 'F0'][0]
        if j in errs:
            if s.debug and (not f0.readable or f0.arr):
                # C19: not all fields readable scalars => `debug` does not compile. Nothing to probe.
                debug_rejected += 1
                continue
            chk.add_violation(f"declaration rejected: {text}", "decl_rejected", f"API layout does not compile: {text} :: {errs[j][0]}", decl_replay(text, "accept", prelude=prelude))
            continue
        for k, t, expect_ok in probes:
            nprobes += 1
            nfail += (not expect_ok)
            e = errs.get((j, k))
            outcomes.add((kname, f0.access, k.rstrip('0123456789'), bool(e)))
            bad = None
            if expect_ok and e:
                bad = f"must exist but does not compile ({e[0]})"
            elif not expect_ok and not e:
                bad = "must not exist but compiles"
            elif not expect_ok and e:
                for c, _ in e:
                    codes[c] = codes.get(c, 0) + 1
            if bad:
                chk.add_violation(f"{text} :: {t}", "api_surface", f"access '{f0.access or 'none'}' field of kind {kname}: {text} :: {t} {bad}",
                                  decl_replay(text, "accept", [(k, t)], {k: "accept" if expect_ok else "reject"}, prelude=prelude))
        e = chk.per_family.setdefault(s.family, {"fields": 0, "transitions": 0, "states": 0, "violations": 0})
        e["states"] += 1
        e["transitions"] += len(probes)
        e["fields"] += len(s.fields)
    chk.states += len(cases)
    chk.programs += len(cases) + nprobes
    chk.transitions += nprobes + len(cases)
    chk.validated += nprobes
    chk.distinct_outcomes = len(outcomes)     # distinct (field kind, access, probe kind, rustc verdict) tuples observed
    chk.extra.update({"structs": len(cases), "probes": nprobes, "probes_expected_to_fail": nfail, "rejection_error_codes": codes,
                      "debug_structs_with_unreadable_or_array_field_rejected": debug_rejected})
    for j in (0, len(meta) // 2, len(meta) - 3):
        kname, s, probes = meta[j]
        chk.sample({"declaration": R.struct_decl(s), "probes": [{"text": t, "model_expects": "compiles" if ok else "rejected"} for _, t, ok in probes]})
    if nfail == 0 or nfail == nprobes:
        core.vacuous("C17: no variation in probe verdicts")
    chk.bounds.append("field kinds {bool, uN, native, signed, bool/uN arrays, multi-range, multi-range array, exhaustive enum, Option<enum>, enum arrays, nested bitfield, high/ full-width fields} "
                      "x access {r, w, rw, none} x bases " + ("{u8,u12,u32,u128}" if tier == 'quick' else "{u8,u12,u16,u24,u32,u48,u64,u100,u128}") +
                      " x {alone, next to an rw field (both orders), alone with the `debug` option}; probes: getter, with_, set_, builder step at every chain position, complete builder chain; "
                      "a `debug` struct whose field is not a readable scalar may be rejected as a whole (C19) - if it is accepted its surface is probed like any other")
    return chk.finish()


PROPS['C17'] = c17


def c18_structs(tier):
    """documented cross-section: every kind x {default, debug, builder, arrays, enums, arbitrary-int base, multi-range}"""
    from . import sets, build as Bd
    import dataclasses
    step = 6 if tier == 'quick' else 1
    picked = []
    srcs = [("contig", sets.contig_set('quick')), ("arr", sets.arr_set('quick')), ("nc", sets.nc_set('quick')), ("signed", sets.signed_set('quick')),
            ("custom", sets.custom_set('quick')), ("builder", sets.builder_structs('quick')), ("debug", sets.debug_structs('quick')),
            ("mix", sets.mix_set('quick')), ("consts", sets.consts_set('quick'))]
    for name, ss in srcs:
        st = max(1, len(ss) // 150) if tier == 'quick' else 1
        for k, s in enumerate(ss):
            if k % st:
                continue
            cap = 16 if tier == 'quick' else 60
            fsel = list(s.fields) if len(s.fields) <= cap else list(s.fields[::max(1, len(s.fields) // cap)][:cap])
            s2 = dataclasses.replace(s, fields=fsel, family=f"DOC:{name}")
            if s2.has_builder and len(s2.fields) != len(s.fields):
                s2.has_builder = False
            picked.append(s2)
    Bd.name_structs(picked, prefix="D")
    for k, s in enumerate(picked):
        s.name = "S"
        # every third struct: user attribute first, doc comment after it
        if k % 3 == 1:
            s.doc_after_attrs = True
    return picked


REGIMES = {
    "no_std": "#![no_std]\n",
    "missing_docs": "#![deny(missing_docs)]\n",
    "forbid_unsafe": "#![forbid(unsafe_code)]\n",
    "all": "#![no_std]\n#![deny(missing_docs)]\n#![forbid(unsafe_code)]\n",
    # the declaring module has its own item named `core`: whatever the generated code calls `core` must still be the core crate
    "core_shadowed": "#![no_std]\n",
}


def c18(tier):
    from . import rustgen as R, sets
    import subprocess, re
    chk = core.Check('C18', tier)
    chk.assumptions = ASSUME_DECL[:1] + ["a #![no_std] crate cannot name std on any target, so compiling for the host suffices",
                                         "rustc's builtin derives emit `unsafe impl` under #[automatically_derived]; those are the compiler's, not the macro's, and are excluded from the unsafe scan",
                                         "`syn` parses the -Zunpretty=expanded output (a parse failure is a machinery failure)"]
    structs = c18_structs(tier)
    arts = D.carrier()
    # documented enum / nested types used by the fields, plus stand-alone enums in all three exhaustive modes
    enums, inners = R.required_types(structs)
    eds = [e for k, e in enumerate(sets.enum_set('quick')) if k % (40 if tier == 'quick' else 4) == 0]
    for e in eds:
        enums[e.name] = e
    types = []
    for name in sorted(enums):
        types.append(R.enum_decl(enums[name], derive_debug=True, doc=True))
        types.append(f"/// alias\npub type A{name} = {name};")
    for n, _ in sorted(inners):
        types.append(R.inner_decl(n, debug=True, doc=True))
        types.append(f"/// alias\npub type A{R.inner_name(n)} = {R.inner_name(n)};")
    types_txt = "\n".join(types) + "\n"
    items = [D.Item(j, R.struct_decl(s, doc=True)) for j, s in enumerate(structs)]
    base_prelude = "//! documented crate\n#![allow(dead_code, unused_imports, deprecated, non_camel_case_types, non_upper_case_globals, unused_parens)]\nuse bitbybit::{bitenum, bitfield};\nuse arbitrary_int::*;\n"
    files = []
    for rname, attrs in REGIMES.items():
        prelude = attrs + base_prelude + types_txt
        keep = [] if rname == "all" else None
        inner = '#[doc = "a user module that happens to be called core"] pub mod core { #[doc = "f"] pub fn id() -> u8 { 1 } }' if rname == "core_shadowed" else ""
        errs, unatt = D.compile_items(arts, items, f"c18-{rname}", emit="metadata", nshards=16, prelude=prelude, mod_doc=True, cap_lints=False, keep_files=keep,
                                      mod_inner=inner)
        if keep:
            files = keep
        chk.transitions += len(items)
        chk.validated += len(items)
        for j, s in enumerate(structs):
            if j in errs:
                text = R.struct_decl(s, doc=True)
                chk.add_violation(f"[{rname}] {text}", "regime_" + rname, f"does not compile under {attrs.strip()}: {text} :: {errs[j][0]}",
                                  decl_replay(text, "accept", prelude=prelude, flags=["--cap-lints", "forbid"]))
        for u in unatt[:5]:
            # errors in the shared type prelude (enums / nested bitfields) are verdicts too
            chk.add_violation(f"[{rname}] prelude: {u[:200]}", "regime_" + rname, f"generated code for the documented enum/nested types does not compile under {attrs.strip()}: {u}",
                              decl_replay(types_txt, "accept", prelude=attrs + base_prelude, flags=["--cap-lints", "forbid"]))
        chk.per_family[f"regime:{rname}"] = {"fields": sum(len(s.fields) for s in structs), "transitions": len(items), "states": len(items), "violations": len(errs)}
    # modules that never import arbitrary_int's names: the types (enums, nested bitfields) live at the crate root, which does import them; each
    # declaring module imports only the macros, those types and - for an arbitrary-int base - the one name the user wrote in the attribute.
    # Every arbitrary-int field type is written `arbitrary_int::uN`, so whatever else the generated code needs it must name by path itself
    import copy
    structs_q = copy.deepcopy(structs)
    for sq in structs_q:
        for f in sq.fields:
            if f.kind == 'u':
                f.qualified = True
    names = sorted(enums) + [f"A{n_}" for n_ in sorted(enums)] + [R.inner_name(n_) for n_, _ in sorted(inners)] + [f"A{R.inner_name(n_)}" for n_, _ in sorted(inners)]
    mod_use = "use super::{bitenum, bitfield, " + ", ".join(names) + "};"
    items_q = [D.Item(j, ("" if sq.n in NATIVE else f"use arbitrary_int::u{sq.n}; ") + R.struct_decl(sq, doc=True)) for j, sq in enumerate(structs_q)]
    prelude_q = "#![no_std]\n" + base_prelude + types_txt
    errs, unatt = D.compile_items(arts, items_q, "c18-no_import", emit="metadata", nshards=16, prelude=prelude_q, mod_doc=True, cap_lints=False, mod_use=mod_use)
    chk.transitions += len(items_q)
    chk.validated += len(items_q)
    for j, sq in enumerate(structs_q):
        if j in errs:
            text = f"pub mod user {{ {mod_use}\n" + items_q[j].text + "\n}"
            chk.add_violation(f"[no_import] {text}", "regime_no_import", f"does not compile in a module that does not import arbitrary_int::*: {items_q[j].text} :: {errs[j][0]}",
                              decl_replay(text, "accept", prelude=prelude_q, flags=["--cap-lints", "forbid"]))
    for u in unatt[:5]:
        # errors in the shared type prelude (enums / nested bitfields at the crate root) are verdicts too, as in the other regimes
        chk.add_violation(f"[no_import] prelude: {u[:200]}", "regime_no_import", f"generated code for the documented enum/nested types does not compile under #![no_std]: {u}",
                          decl_replay(types_txt, "accept", prelude="#![no_std]\n" + base_prelude, flags=["--cap-lints", "forbid"]))
    chk.per_family["regime:no_import"] = {"fields": sum(len(sq.fields) for sq in structs_q), "transitions": len(items_q), "states": len(items_q), "violations": len(errs)}
    # expansion scan
    exp_dir = os.path.join(B.WORK, "declmc", "c18-expanded")
    os.makedirs(exp_dir, exist_ok=True)
    expanded = []

    def expand(fn):
        out = os.path.join(exp_dir, os.path.basename(fn))
        cmd = ["rustc", "--edition", "2021", "--crate-type", "lib", "-Zunpretty=expanded", "-L", f"dependency={arts['deps']}", "--extern", f"bitbybit={arts['bitbybit']}",
               "--extern", f"arbitrary_int={arts['arbitrary_int']}", fn]
        p = subprocess.run(cmd, capture_output=True, text=True, env=dict(os.environ, RUSTC_BOOTSTRAP="1"))
        if p.returncode != 0:
            return None, p.stderr[-800:]
        open(out, "w").write(p.stdout)
        return out, None
    from concurrent.futures import ThreadPoolExecutor
    scan_ok = not any(v for v in chk.violations)
    with ThreadPoolExecutor(16) as ex:
        for out, err in ex.map(expand, files):
            if out is None:
                if scan_ok:
                    raise B.MachineryError("rustc -Zunpretty=expanded failed on a file that compiles: " + str(err))
                continue
            expanded.append(out)
    if expanded:
        scanner = os.path.join(B.TARGET, "release", "expscan")
        if not os.path.exists(scanner):
            p = subprocess.run(["cargo", "build", "--offline", "--release"], cwd=os.path.join(B.ENGINE, "expscan"), env=B.env(), capture_output=True, text=True)
            if p.returncode != 0:
                raise B.MachineryError("expscan does not build: " + p.stderr[-2000:])
        p = subprocess.run([scanner] + expanded, capture_output=True, text=True)
        if p.returncode != 0:
            raise B.MachineryError("expscan failed: " + p.stderr[-2000:])
        res = json.loads(p.stdout)
        tot_items = tot_paths = derived = 0
        for r in res:
            if not r.get("ok"):
                raise B.MachineryError(f"syn could not parse the expanded output {r['file']}: {r.get('error')}")
            tot_items += r["items"]
            tot_paths += r["paths"]
            derived += r["unsafe_in_derived"]
            if r["hits"]:
                lines = open(r["file"]).read().split("\n")
                for h in r["hits"][:20]:
                    mod = None
                    for ln in range(min(h["line"], len(lines)) - 1, -1, -1):
                        m = re.search(r"pub mod m(\d+)\b", lines[ln])
                        if m:
                            mod = int(m.group(1))
                            break
                    text = R.struct_decl(structs[mod], doc=True) if mod is not None and mod < len(structs) else "(type prelude)"
                    chk.add_violation(f"expansion {h['kind']} {h['what']} :: {text}", "expansion_" + h["kind"],
                                      f"generated code contains {h['kind']}: {h['what']} (expanded line {h['line']}: {lines[h['line'] - 1].strip()[:160] if 0 < h['line'] <= len(lines) else ''}) :: {text}",
                                      {"engine": "expscan", "text": text, "hit": h})
        chk.transitions += tot_paths
        chk.validated += tot_paths
        chk.extra.update({"expanded_items_scanned": tot_items, "paths_scanned": tot_paths, "unsafe_impls_in_compiler_derives_ignored": derived})
        if tot_paths < 1000:
            core.vacuous("expansion scan saw almost no paths")
    chk.states += len(structs) + len(enums) + len(inners)
    chk.programs += len(structs) * (len(REGIMES) + 1)
    chk.distinct_outcomes = len(set(s.family for s in structs))
    for j in (0, len(structs) // 2, len(structs) - 1):
        chk.sample({"declaration": R.struct_decl(structs[j], doc=True)[:600], "regimes": list(REGIMES), "verdict": "compiles in all"})
    chk.extra.update({"structs": len(structs), "enums": len(enums), "nested_types": len(inners)})
    chk.bounds.append("documented cross-section: every " + ("k-th" if tier == 'quick' else "") + " struct of the contig/array/non-contiguous/signed/custom/builder/debug/mixed/default-form sets (fields truncated to 10/24), "
                      "all enum types they use plus stand-alone bitenums in all three exhaustive modes; each compiled under #![no_std], #![deny(missing_docs)], #![forbid(unsafe_code)], all three, "
                      "inside a module that has its own item named `core`, and in a module that never imports arbitrary_int's names (field types written by path, only the base type's name imported); "
                      "-Zunpretty=expanded output scanned with syn for unsafe (outside #[automatically_derived]), std/alloc paths, absolute paths outside core/arbitrary_int, unexpanded macros")
    return chk.finish()


PROPS['C18'] = c18
