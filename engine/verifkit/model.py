"""Data model for generated declarations (shared by regmc generation and declmc)."""
from dataclasses import dataclass, field as dfield
from typing import List, Optional, Tuple

NATIVE = (8, 16, 32, 64, 128)


def storage(n: int) -> int:
    for w in NATIVE:
        if n <= w:
            return w
    raise ValueError(n)


def mask(w: int) -> int:
    return (1 << w) - 1


@dataclass(frozen=True)
class EnumDef:
    n: int                      # bits
    exhaustive: str             # 'true' | 'false' | 'conditional'
    discs: Tuple[int, ...]      # discriminants in declaration order (live variants)
    dead: Tuple[int, ...] = ()  # discriminants of #[cfg(any())] variants (conditional only)
    spell: str = '='            # 'exhaustive = x' or 'exhaustive: x'
    omit_exh: bool = False      # leave out the exhaustive argument (means false)
    native_name: bool = True    # (kept for clarity) storage written as uN
    dead_first: bool = False    # declare the #[cfg(any())] variants before the live ones (they may share discriminants with live ones)
    exh_first: bool = False     # write `exhaustive = ..` before the storage type (undocumented argument order)
    alias: str = ''             # fixed type name (e.g. `Q3`: a user type whose name looks like letter + digits)

    @property
    def name(self):
        if self.alias:
            return self.alias
        import hashlib
        h = hashlib.sha1(repr((self.n, self.exhaustive, self.discs, self.dead, self.spell, self.omit_exh, self.dead_first, self.exh_first)).encode()).hexdigest()[:8]
        return f"E{self.n}_{h}"


@dataclass
class Field:
    ranges: List[Tuple[int, int]]          # (lo, len) in declaration order
    kind: str                              # b u n i e o c
    arr: Optional[Tuple[int, int]] = None  # (K, stride)
    access: str = 'rw'                     # rw r w ''
    enum: Optional[EnumDef] = None
    inner_n: Optional[int] = None          # nested bitfield base width (kind c)
    stride_explicit: bool = True           # write `stride = s` (only may be False when stride == w and single range)
    form: str = 'auto'                     # 'bit' | 'bits' | 'auto'
    stride_sep: str = '='
    family: str = ''
    name: str = ''
    doc: bool = False
    qualified: bool = False                # spell arbitrary-int field types as arbitrary_int::uN
    arg_order: str = 'ras'                 # order of the attribute arguments: r = range, a = access, s = stride
    access_split: str = ''                 # spell an rw access as two flags: 'r, w' or 'w, r' (undocumented; OPTIONAL family)
    type_alias: bool = False               # custom kinds: name the type through `pub type A<name> = <name>;`
    opt_path: str = ''                     # spelling of `Option` for kind o: '' | 'core::option::' | '::core::option::' | 'std::option::'

    @property
    def w(self):
        return sum(l for _, l in self.ranges)

    @property
    def readable(self):
        return 'r' in self.access

    @property
    def writable(self):
        return 'w' in self.access

    def top(self):
        t = max(lo + l for lo, l in self.ranges)
        if self.arr:
            t += (self.arr[0] - 1) * self.arr[1]
        return t

    def cover(self):
        m = 0
        for i in range(self.arr[0] if self.arr else 1):
            sh = i * self.arr[1] if self.arr else 0
            for lo, l in self.ranges:
                m |= mask(l) << (lo + sh)
        return m


@dataclass
class Struct:
    n: int
    fields: List[Field]
    default: Optional[int] = None
    default_form: str = 'lit'   # 'lit' | 'const'
    default_sep: str = '='
    debug: bool = False
    family: str = ''
    name: str = ''
    has_builder: bool = False
    passes: List[Tuple[str, str]] = dfield(default_factory=list)
    doc: bool = False
    twin: bool = False          # emit Debug twin
    ctab: bool = False          # emit compile-time tables (C15)
    keep_names: bool = False    # keep the field names given by the enumerator (NAMES family)
    derives: str = ''           # user derives passed through the macro, e.g. '#[derive(PartialEq, Eq)]'
    vis: str = 'pub'            # struct visibility: 'pub' | 'pub(crate)' | '' (private)
    doc_after_attrs: bool = False   # place the struct's doc comment after the user's attributes
    debug_first: bool = False       # write `debug` before `default = ..` in the bitfield attribute
