"""Bounded declaration grammars for declmc (C09, C10, C14, C17, C18)."""
import itertools
from .model import *
from . import oracle


# ------------------------------------------------------------------------------------------------
# C09: one-field bitfield declarations
#   decl = (base:str, form, ranges[(lo,hi)], ty, K, stride, sep)

def emit_field_decl(d, name="S"):
    order = d[7] if len(d) > 7 else 'ras'
    base, form, ranges, ty, K, stride, sep = d[:7]
    if len(ranges) == 1 and form == 'list1':
        lo, hi = ranges[0]
        a = f"bits([{lo}..={hi}]"
    elif len(ranges) == 1:
        lo, hi = ranges[0]
        a = f"bit({lo}" if form == 'bit' else f"bits({lo}..={hi}"
    else:
        parts = []
        for j, (lo, hi) in enumerate(ranges):
            parts.append(f"{lo}" if (lo == hi and j % 2 == 0) else f"{lo}..={hi}")
        a = "bits([" + ", ".join(parts) + "]"
    head, rng = a.split("(", 1)
    parts = {'r': rng, 'a': 'rw', 's': None if stride is None else (f"stride {sep} {stride}" if sep == '=' else f"stride: {stride}")}
    a = head + "(" + ", ".join(parts[k] for k in order if parts[k]) + ")"
    t = ty if K is None else f"[{ty}; {K}]"
    return f"#[bitfield({base})] pub struct {name} {{ #[{a}] x: {t} }}"


def decl_order_documented(d):
    return (d[7] if len(d) > 7 else 'ras') == 'ras'


def use_probe(d, name="S"):
    K = d[4]
    if d[3].startswith("Option<"):
        # the getter of an Option<enum> field returns Result<enum, raw>; the setters take the enum
        if K is None:
            return f"pub fn use_all(s: {name}) -> {name} {{ let mut t = s; if let Ok(v) = s.x() {{ t = s.with_x(v); t.set_x(v); }} t }}"
        return f"pub fn use_all(s: {name}) -> {name} {{ let mut t = s; if let Ok(v) = s.x(0) {{ t = s.with_x({K - 1}, v); t.set_x(0, v); }} t }}"
    if K is None:
        return f"pub fn use_all(s: {name}) -> {name} {{ let v = s.x(); let mut t = s.with_x(v); t.set_x(v); t }}"
    return f"pub fn use_all(s: {name}) -> {name} {{ let v = s.x(0); let mut t = s.with_x({K - 1}, v); t.set_x(0, v); t }}"


def decl_valid(d):
    base, form, ranges, ty, K, stride, sep = d[:7]
    if not oracle.base_valid(base):
        return False
    n = int(base[1:])
    return oracle.field_valid(n, form, ranges, ty, K, stride)


# custom field types for C09 (defined once at the crate root by C09_PRELUDE): exhaustive enums CE1..CE3, non-exhaustive enums CQ<w>
# (used as Option<CQ<w>>), nested bitfields CN<w>
CUSTOM_Q = (1, 2, 3, 4, 7, 8, 9, 16)
CUSTOM_N = (1, 2, 3, 4, 7, 8, 9, 12, 16)


def c09_prelude():
    out = []
    for w in (1, 2, 3):
        vs = ", ".join(f"V{i} = {i}" for i in range(1 << w))
        out.append(f"#[bitenum(u{w}, exhaustive = true)] #[derive(Debug, PartialEq, Eq)] pub enum CE{w} {{ {vs} }}")
    for w in CUSTOM_Q:
        vs = "V0 = 0" if w == 1 else f"V0 = 0, V1 = 1, VT = {(1 << w) - 1}"
        out.append(f"#[bitenum(u{w}, exhaustive = false)] #[derive(Debug, PartialEq, Eq)] pub enum CQ{w} {{ {vs} }}")
    for w in CUSTOM_N:
        out.append(f"#[bitfield(u{w})] pub struct CN{w} {{ #[bit(0, rw)] b: bool }}")
    return "\n".join(out) + "\n"


def custom_types_around(w):
    tys = set()
    for ww in (w - 1, w, w + 1):
        if ww in (1, 2, 3):
            tys.add(f"CE{ww}")
        if ww in CUSTOM_Q and ww != w - 1:
            tys.add(f"Option<CQ{ww}>")
        if ww in CUSTOM_N and ww != w + 1:
            tys.add(f"CN{ww}")
    if w < 1:
        # a range that selects no bit at all: every custom width is "wrong by w"
        tys |= {"Option<CQ8>", "CN8", "CE1", "Option<CQ16>", "CN16"}
    return sorted(tys)


def types_around(w):
    tys = {'bool'}
    for ww in (w - 1, w, w + 1):
        if 1 <= ww <= 128 and (ww in NATIVE or ww <= 127):
            tys.add(f"u{ww}")
    if w in NATIVE:
        tys.add(f"i{w}")
    if w < 1:
        tys |= {'u1', 'u2'}
    return sorted(tys)


def c09_small_product(n):
    base = f"u{n}"
    out = []
    for lo in range(0, n + 2):
        for hi in range(0, n + 2):
            w = hi - lo + 1
            # `bits([lo..=hi])`: a range list with one member is still one contiguous range
            forms = ['bits'] + (['bit'] if lo == hi else []) + (['list1'] if (lo + hi) % 2 == 0 else [])
            for form in forms:
                for ty in custom_types_around(w):
                    for K in (None, 2):
                        for st in ([None] if K is None else [None, max(w, 1)]):
                            out.append((base, form, [(lo, hi)], ty, K, st, '='))
                for ty in types_around(w):
                    for K in (None, 1, 2, 3):
                        if K is None:
                            strides = [None]
                        else:
                            strides = [None] + sorted({s for s in (0, w - 1, w, w + 1, n) if s >= 0})
                        for st in strides:
                            sep = ':' if (st is not None and (lo + hi + st) % 3 == 0) else '='
                            out.append((base, form, [(lo, hi)], ty, K, st, sep))
                            # the same array declaration with the attribute arguments in another order (not the documented one:
                            # only "invalid => rejected" is demanded of these)
                            if st is not None and K is not None and K >= 2:
                                out.append((base, form, [(lo, hi)], ty, K, st, sep, ('sra', 'ars', 'rsa')[(lo + hi + K) % 3]))
    # two-range lists over a boundary set (pairwise disjoint only: lists naming a bit twice are undetermined)
    pts = sorted({0, 1, n // 2, n - 2, n - 1, n})
    rs = [(a, b) for a in pts for b in pts if a <= b]
    for r1 in rs:
        for r2 in rs:
            if not (r1[1] < r2[0] or r2[1] < r1[0]):
                continue
            nb = r1[1] - r1[0] + 1 + r2[1] - r2[0] + 1
            for ty in sorted({f"u{nb}", f"u{nb + 1}", f"u{max(1, nb - 1)}"} | ({f"i{nb}"} if nb in NATIVE else set())):
                for K in (None, 2):
                    for st in ([None] if K is None else [None, 1, nb, nb + 1]):
                        out.append((base, 'bits', [r1, r2], ty, K, st, '='))
    return out


def c09_wide_boundary(n):
    W = storage(n)
    base = f"u{n}"
    out = []
    pos = sorted({p for p in (0, 1, n - 2, n - 1, n, n + 1, W - 1, W, W + 1) if p >= 0})
    # single bits and short fields around the boundaries
    for p in pos:
        out.append((base, 'bit', [(p, p)], 'bool', None, None, '='))
        out.append((base, 'bits', [(p, p)], 'u1', None, None, '='))
        for w in (2, 3):
            out.append((base, 'bits', [(p - w + 1, p)], f"u{w}", None, None, '=')) if p - w + 1 >= 0 else None
            out.append((base, 'bits', [(p, p + w - 1)], f"u{w}", None, None, '='))
    # widths around native sizes, ending at / starting at the boundaries
    for w in (7, 8, 9, 15, 16, 17, 31, 32, 33, 63, 64, 65, 127, 128):
        for ty in sorted({f"u{w}"} | ({f"i{w}"} if w in NATIVE else set())):
            for hi in (n - 2, n - 1, n, W - 1, W):
                lo = hi - w + 1
                if lo >= 0:
                    out.append((base, 'bits', [(lo, hi)], ty, None, None, '='))
            out.append((base, 'bits', [(0, w - 1)], ty, None, None, '='))
            # wrong width by one
            out.append((base, 'bits', [(0, w - 2)], ty, None, None, '=')) if w >= 2 else None
    # full-width and one-too-wide fields
    for w in (n - 1, n, n + 1, W, W + 1):
        if 1 <= w <= 128 and (w in NATIVE or w <= 127):
            out.append((base, 'bits', [(0, w - 1)], f"u{w}", None, None, '='))
    # arrays whose last element ends at N-2, N-1, N, W-1, W
    for w, ty in ((1, 'bool'), (1, 'u1'), (2, 'u2'), (3, 'u3'), (8, 'u8'), (8, 'i8'), (16, 'u16')):
        for stride in (None, w, w + 1):
            s = w if stride is None else stride
            for end in (n - 2, n - 1, n, W - 1, W):
                for lo in (0, 1):
                    # (K-1)*s + lo + w - 1 == end
                    rem = end - lo - w + 1
                    if rem < 0 or rem % s != 0:
                        continue
                    K = rem // s + 1
                    if K >= 1:
                        out.append((base, 'bits' if ty != 'bool' else 'bit', [(lo, lo + w - 1)], ty, K, stride, '='))
    # two-range fields with the second range at the boundary
    for hi in (n - 1, n, W - 1, W):
        out.append((base, 'bits', [(0, 1), (hi - 1, hi)], 'u4', None, None, '='))
        out.append((base, 'bits', [(hi - 1, hi), (0, 1)], 'u4', None, None, '='))
        out.append((base, 'bits', [(hi, hi), (0, 2)], 'u4', None, None, '='))
        out.append((base, 'bits', [(0, 0), (2, 2)], 'u2', 2, hi - 2, '=')) if hi - 2 >= 1 else None
        out.append((base, 'bits', [(2, 2), (0, 0)], 'u2', 2, hi - 2, '=')) if hi - 2 >= 1 else None
    return [d for d in out if d is not None]


def c09_declarations(tier):
    decls = []
    for n in ((3, 4, 5, 6, 7, 8) if tier == 'quick' else (2, 3, 4, 5, 6, 7, 8, 9, 10, 11, 12)):
        decls += c09_small_product(n)
    wide = (16, 12, 32, 24, 64, 40, 128, 100, 127, 1) if tier == 'quick' else \
        sorted(set(range(1, 128)) - set(NATIVE) | {8, 16, 32, 64, 128})
    for n in wide:
        decls += c09_wide_boundary(n)
    # unsupported bases
    for b in ('u0', 'u129', 'u256', 'i32', 'usize', 'i8', 'u130'):
        decls.append((b, 'bit', [(0, 0)], 'bool', None, None, '='))
        decls.append((b, 'bits', [(0, 1)], 'u2', None, None, '='))
    # dedupe, keep order
    seen, out = set(), []
    for d in decls:
        k = (d[0], d[1], tuple(d[2]), d[3], d[4], d[5], d[6], d[7] if len(d) > 7 else 'ras')
        if k not in seen:
            seen.add(k)
            out.append(d)
    return out


# ------------------------------------------------------------------------------------------------
# C10: bitenum declarations   decl = (size_str, discs(tuple, declaration order), exh, sep, cfg_index|None, malformed|None)

def emit_enum_decl(d, name="E"):
    size, ds, exh, sep, cfg, mal = d[:6]
    first = len(d) > 6 and d[6]
    a = size
    if exh is not None:
        ex = f"exhaustive = {exh}" if sep == '=' else f"exhaustive: {exh}"
        a = f"{ex}, {a}" if first else f"{a}, {ex}"
    vs = []
    for i, x in enumerate(ds):
        pre = '#[cfg(all())] ' if cfg == i else ''
        if cfg == i and (len(ds) + i) % 2 == 0:
            pre = '/** doc comment before the cfg */ #[cfg(all())] '
        if mal == 'missing' and i == len(ds) - 1:
            vs.append(f"{pre}V{i}")
        elif mal == 'nonlit' and i == len(ds) - 1:
            vs.append(f"{pre}V{i} = 0 + {x}")
        elif mal == 'neg' and i == len(ds) - 1:
            vs.append(f"{pre}V{i} = -1")
        elif mal == 'constref' and i == len(ds) - 1:
            vs.append(f"{pre}V{i} = K")
        elif mal == 'paren' and i == len(ds) - 1:
            vs.append(f"{pre}V{i} = ({x})")              # a parenthesised literal is an expression, not an integer literal
        elif mal == 'cast' and i == len(ds) - 1:
            vs.append(f"{pre}V{i} = {x} as isize")
        elif mal == 'block' and i == len(ds) - 1:
            vs.append(f"{pre}V{i} = {{ {x} }}")
        else:
            lit = hex(x) if (x > 9 and (x + i) % 2) else str(x)
            vs.append(f"{pre}V{i} = {lit}")
    if mal == 'cfgattr_dead':
        # a variant compiled out through cfg_attr: still a cfg-gated variant
        free = next(x for x in itertools.count() if x not in ds)
        vs.insert(len(vs) // 2, f"#[cfg_attr(all(), cfg(any()))] XA = {free}")
    if mal == 'deaddup_front':
        vs.insert(0, f"#[cfg(any())] X0 = {ds[-1]}")
    if mal == 'deaddup_back':
        vs.append(f"#[cfg(any())] X0 = {ds[0]}")
    mx = max(ds) if ds else 0
    rep = '#[repr(u64)] ' if mx >= (1 << 31) and mx < (1 << 64) else ('#[repr(u128)] ' if mx >= (1 << 64) else '')
    k = 'const K: isize = 1; ' if mal == 'constref' else ''
    return f"{k}#[bitenum({a})] {rep}pub enum {name} {{ {', '.join(vs)} }}"


def enum_decl_documented_order(d):
    return not (len(d) > 6 and d[6])


def enum_decl_valid(d):
    size, ds, exh, sep, cfg, mal = d[:6]
    if not (size.startswith('u') and size[1:].isdigit()):
        return False
    if mal in ('deaddup_front', 'deaddup_back'):
        # a compiled-out variant sharing a live variant's discriminant (mutually exclusive cfgs): a cfg-gated variant,
        # so only `conditional` may carry it; the live variants must satisfy the rule on their own
        return exh == 'conditional' and oracle.enum_valid(int(size[1:]), list(ds), exh, True, None)
    return oracle.enum_valid(int(size[1:]), list(ds), exh, cfg is not None, mal)


def c10_declarations(tier):
    out = []
    EXH = [('true', '='), ('false', '='), ('conditional', '='), (None, '='), ('true', ':'), ('false', ':'), ('conditional', ':')]
    for n in (1, 2, 3) + ((4,) if tier == 'thorough' else ()):
        U = list(range(0, (1 << n) + 2))
        maxk = (1 << n) + 1
        for k in range(1, maxk + 1):
            if n == 4 and not (k <= 3 or k >= 15):
                continue
            for ds in itertools.combinations(U, k):
                if n <= 2:
                    orders = list(itertools.permutations(ds))
                else:
                    ds = tuple(ds)
                    orders = [ds, tuple(reversed(ds)), ds[1:] + ds[:1], ds[-1:] + ds[:-1]]
                    if len(ds) >= 3:
                        orders.append((ds[0], ds[-1]) + ds[1:-1])     # out-of-range value in the middle
                        orders.append((ds[-1], ds[0]) + ds[1:-1])
                    orders = list(dict.fromkeys(orders))
                for oi, od in enumerate(orders):
                    forms = EXH if oi == 0 else EXH[:4]
                    if n == 4:
                        forms = EXH[:4]
                    for exh, sep in forms:
                        out.append((f"u{n}", od, exh, sep, None, None))
                        if oi == 0 or n <= 2 and oi == 1:
                            out.append((f"u{n}", od, exh, sep, len(od) - 1 if (k + oi) % 2 else 0, None))
        # duplicates and malformed variants
        for exh, sep in EXH[:4]:
            out.append((f"u{n}", (0, 0), exh, sep, None, None))
            out.append((f"u{n}", (1, 0, 1), exh, sep, None, None))
            for mal in ('missing', 'nonlit', 'neg', 'constref', 'paren', 'cast', 'block'):
                out.append((f"u{n}", (0, 1), exh, sep, None, mal))
            if exh != 'conditional':
                # (under `conditional` the outcome for cfg_attr-gated variants is not determined by the property)
                for ds in [(0,), (1, 0), tuple(range((1 << n) - 1)), tuple(range(1, 1 << n))]:
                    out.append((f"u{n}", ds, exh, sep, None, 'cfgattr_dead'))
            for mal in ('deaddup_front', 'deaddup_back'):
                for ds in [(0,), (1, 0), tuple(range(1 << n)), tuple(reversed(range(1 << n))), ((1 << n) - 1,), ((1 << n),)]:
                    out.append((f"u{n}", ds, exh, sep, None, mal))
    # storage boundaries
    for n in (4, 5, 7, 8, 9, 15, 16, 17, 31, 32, 33, 63, 64):
        mx = (1 << n) - 1
        sets_ = [(0,), (mx,), (mx + 1,), (0, mx), (mx, 0), (0, mx + 1), (mx + 1, 0, 1), (1, mx + 1, 0, 2)]
        if n <= 8:
            full = tuple(range(1 << n))
            sets_ += [full, full[:-1], full + (mx + 1,), tuple(reversed(full))]
        for ds in sets_:
            for exh, sep in EXH[:4]:
                out.append((f"u{n}", ds, exh, sep, None, None))
            out.append((f"u{n}", ds, 'conditional', '=', 0, None))
            out.append((f"u{n}", ds, 'false', '=', 0, None))
    # unsupported sizes
    for size in ('u0', 'u65', 'u100', 'u128', 'u127'):
        for ds in [(0,), (0, 1)]:
            for exh, sep in EXH[:4]:
                out.append((size, ds, exh, sep, None, None))
    # the same declarations with `exhaustive` written before the storage type (undocumented order: only "invalid => rejected" is demanded)
    out += [d + (True,) for d in out[::5] if d[2] is not None]
    seen, res = set(), []
    for d in out:
        if d not in seen:
            seen.add(d)
            res.append(d)
    return res


# ------------------------------------------------------------------------------------------------
# C14: builder existence and type-state

from . import rustgen as R


def zero_arg(f: Field):
    k, w = f.kind, f.w
    if k == 'b':
        v = "false"
    elif k == 'u':
        v = f"u{w}::new(0)"
    elif k == 'n':
        v = f"0u{w}"
    elif k == 'i':
        v = f"0i{w}"
    else:
        raise ValueError(k)
    return f"[{v}; {f.arr[0]}]" if f.arr else v


def plain_structs(n, maxfields, accesses=('r', 'w', 'rw', '')):
    ranges = [(lo, hi - lo + 1) for lo in range(n) for hi in range(lo, n)]
    fopts = [(r, a) for r in ranges for a in accesses]
    out = []
    for k in range(1, maxfields + 1):
        for fs in itertools.product(fopts, repeat=k):
            for dflt in (None, 1, 'const'):
                fields = [Field([r], 'u', access=a, name=f"f{i}", form='bits') for i, (r, a) in enumerate(fs)]
                if dflt == 'const':
                    # the default written as a named constant (only for the 1- and 2-field structs: it must behave like the literal)
                    if k <= 2:
                        out.append(Struct(n, fields, default=1, default_form='const', default_sep=':' if len(out) % 2 else '=', name="S", family=f"PLAIN{n}"))
                else:
                    out.append(Struct(n, fields, default=dflt, name="S", family=f"PLAIN{n}"))
    return out


def bld_families():
    out = []

    def S(n, fields, dflt, fam):
        for i, f in enumerate(fields):
            f.name = f"f{i}"
        out.append(Struct(n, fields, default=dflt, name="S", family=fam))
        if dflt is not None and len(out) % 2 == 0:
            # the same layout with the default written as a named constant / with the legacy spelling
            import dataclasses
            out.append(Struct(n, [dataclasses.replace(f) for f in fields], default=dflt, default_form='const', default_sep=':' if len(out) % 4 == 0 else '=',
                              name="S", family=fam))

    # multi-range arrays: adjacent and non-adjacent element overlap, interleaving
    for n in (8, 16):
        for g in (1, 2, 3, 4, 5):
            for stride in (1, 2, 3, 4, 5, 6):
                for K in (2, 3, 4):
                    f = Field([(0, 1), (g, 1)], 'u', arr=(K, stride))
                    if f.top() <= n:
                        for dflt in (None, 0):
                            S(n, [Field([(0, 1), (g, 1)], 'u', arr=(K, stride))], dflt, "NCARR")
                            if f.top() < n:
                                S(n, [Field([(0, 1), (g, 1)], 'u', arr=(K, stride)), Field([(n - 1, 1)], 'b')], dflt, "NCARR")
        # complete covers by arrays
        S(n, [Field([(0, 1)], 'b', arr=(n, 1), stride_explicit=False)], None, "ARRCOVER")
        S(n, [Field([(0, 2)], 'u', arr=(n // 2, 2), stride_explicit=False)], None, "ARRCOVER")
        S(n, [Field([(0, 2)], 'u', arr=(n // 2 - 1, 2), stride_explicit=False)], None, "ARRCOVER")
        S(n, [Field([(0, 1)], 'u', arr=(n // 2, 2))], None, "ARRCOVER")
        S(n, [Field([(0, 1)], 'u', arr=(n // 2, 2)), Field([(1, 1)], 'b', arr=(n // 2, 2))], None, "ARRCOVER")
        S(n, [Field([(0, 1)], 'u', arr=(n // 2, 2)), Field([(1, 1)], 'b', arr=(n // 2 - 1, 2))], None, "ARRCOVER")
        S(n, [Field([(0, 4)], 'u', arr=(2, 4), stride_explicit=False), Field([(4, 4)], 'u')] + ([Field([(8, 8)], 'n')] if n == 16 else []), None, "ARROVERLAP")
        S(n, [Field([(0, 4)], 'u', arr=(2, 4), stride_explicit=False), Field([(4, 4)], 'u', access='r')] + ([Field([(8, 8)], 'n')] if n == 16 else []), None, "ARROVERLAP")
    # two and three fields of the list / array kinds in every order: nothing computed for one field may leak into the next
    def _mk(kind, base):
        if kind == 'multi':
            return Field([(base, 2), (base + 4, 2)], 'u')
        if kind == 'multi3':
            return Field([(base + 4, 1), (base, 2), (base + 6, 1)], 'u')
        if kind == 'arr':
            return Field([(base, 2)], 'u', arr=(2, 4))
        if kind == 'ncarr':
            return Field([(base, 1), (base + 2, 1)], 'u', arr=(2, 4))
        if kind == 'plain':
            return Field([(base, 8)], 'n')
        return Field([(base, 1)], 'b', arr=(8, 1), stride_explicit=False)
    kinds5 = ('multi', 'multi3', 'arr', 'ncarr', 'barr', 'plain')
    for k1 in kinds5:
        for k2 in kinds5:
            if k1 == 'plain' and k2 == 'plain':
                continue
            for dflt in (None, 0):
                S(16, [_mk(k1, 0), _mk(k2, 8)], dflt, "PAIRS")
            for k3 in ('multi', 'arr'):
                S(32, [_mk(k1, 0), _mk(k2, 8), _mk(k3, 16)], 0, "PAIRS")
    # two writable fields that share bits in exactly one place: the first / a middle / the last element of an array, the first / middle /
    # last range of a list, in both declaration orders (no builder may be offered), next to the disjoint neighbour (builder offered)
    for e in (0, 1, 2, 3):
        for order in (0, 1):
            for dflt in (None, 0):
                A = lambda: Field([(4 * e, 4)], 'u')
                B = lambda: Field([(0, 4)], 'u', arr=(3, 4), stride_explicit=False)            # elements at 0..3, 4..7, 8..11
                S(16, [A(), B()] if order else [B(), A()], dflt, "OVERLAP2")
                A2 = lambda: Field([(min(5 * e, 13), 2)], 'u')
                B2 = lambda: Field([(0, 2), (5, 2), (10, 2)], 'u')                              # ranges at 0..1, 5..6, 10..11
                S(16, [A2(), B2()] if order else [B2(), A2()], dflt, "OVERLAP2")
                A3 = lambda: Field([(e, 1)], 'b')
                B3 = lambda: Field([(0, 1)], 'b', arr=(3, 1), stride_explicit=False)
                S(8, [A3(), B3()] if order else [B3(), A3()], dflt, "OVERLAP2")
    for sh in (4, 8, 12):
        for order in (0, 1):
            X = lambda: Field([(0, 4)], 'u', arr=(2, 4), stride_explicit=False)
            Y = lambda: Field([(sh, 4)], 'u', arr=(2, 4), stride_explicit=False) if sh + 8 <= 16 else Field([(sh, 4)], 'u')
            S(16, [X(), Y()] if order else [Y(), X()], 0, "OVERLAP2")
    # self-overlapping range lists (non-array) and their disjoint neighbours, on u4 and u8
    for n in (4, 8):
        rs = [(lo, l) for lo in range(0, n) for l in range(1, n - lo + 1) if l <= 4]
        if n == 8:
            rs = [(lo, l) for lo, l in rs if lo in (0, 1, 2, 4, 6) and l in (1, 2, 4)]
        for r1 in rs:
            for r2 in rs:
                w = r1[1] + r2[1]
                kind = 'n' if w in NATIVE else 'u'
                for dflt in (None, 0):
                    S(n, [Field([r1, r2], kind)], dflt, "SELFOVERLAP")
    S(8, [Field([(0, 4), (2, 4)], 'n')], 0, "SELFOVERLAP")
    S(8, [Field([(0, 4), (4, 4)], 'n')], 0, "SELFOVERLAP")
    S(8, [Field([(0, 4), (4, 4)], 'n')], None, "SELFOVERLAP")
    # three-range lists where only the first and the last range collide
    S(16, [Field([(0, 2), (4, 2), (1, 2)], 'u')], 0, "SELFOVERLAP")
    S(16, [Field([(0, 2), (4, 2), (8, 2)], 'u')], 0, "SELFOVERLAP")
    # read-only gaps, write-only fields, no specifier
    for acc in ('r', 'w', '', 'rw'):
        for dflt in (None, 5):
            S(8, [Field([(0, 4)], 'u'), Field([(4, 4)], 'u', access=acc)], dflt, "GAPS")
            S(8, [Field([(0, 4)], 'u', access=acc), Field([(4, 4)], 'u')], dflt, "GAPS")
            S(12, [Field([(0, 4)], 'u'), Field([(4, 4)], 'u', access=acc), Field([(8, 4)], 'u')], dflt, "GAPS")
            S(12, [Field([(0, 4)], 'u'), Field([(2, 4)], 'u', access=acc), Field([(8, 4)], 'u')], dflt, "GAPS")
    # the struct-level options in both orders: `debug` must not change whether a builder is offered
    for dfirst in (False, True):
        for fs_, dflt in ((lambda: [Field([(0, 4)], 'u')], 5), (lambda: [Field([(0, 4)], 'u'), Field([(4, 4)], 'u', access='r')], 0),
                          (lambda: [Field([(0, 4)], 'u'), Field([(4, 4)], 'u')], None), (lambda: [Field([(0, 4)], 'u')], None)):
            fl = fs_()
            for i_, f_ in enumerate(fl):
                f_.name = f"f{i_}"
            out.append(Struct(8, fl, default=dflt, name="S", family="DEBUGOPT", debug=True, debug_first=dfirst))
    # completeness is judged against the declared width, not the storage width
    for n in (7, 12, 24, 31, 33, 100):
        S(n, [Field([(0, n)], 'u')], None, "WIDTH")
        S(n, [Field([(0, n - 1)], 'u' if (n - 1) not in NATIVE else 'n')], None, "WIDTH")
        S(n, [Field([(0, n - 1)], 'u' if (n - 1) not in NATIVE else 'n'), Field([(n - 1, 1)], 'b')], None, "WIDTH")
    for n in (8, 16, 32, 64, 128):
        S(n, [Field([(0, n)], 'n')], None, "WIDTH")
        S(n, [Field([(0, n - 1)], 'u')], None, "WIDTH")
        S(n, [Field([(1, n - 1)], 'u'), Field([(0, 1)], 'b')], None, "WIDTH")
    # the type-state mask on every storage class: fields in the low, middle and top part of the base
    for n in (12, 16, 24, 32, 40, 64, 65, 72, 96, 100, 127, 128):
        top = n - 3
        mid = n // 2
        for dflt in (None, 0):
            fs = [Field([(0, 3)], 'u'), Field([(mid, 2)], 'u'), Field([(top, 3)], 'u')]
            if dflt is None:
                # complete cover without a default: fill the gaps with two more fields
                fs = [Field([(0, 3)], 'u'), Field([(3, mid - 3)], 'u' if (mid - 3) not in NATIVE else 'n'), Field([(mid, 2)], 'u'),
                      Field([(mid + 2, top - mid - 2)], 'u' if (top - mid - 2) not in NATIVE else 'n'), Field([(top, 3)], 'u')]
            S(n, fs, dflt, "WIDEMASK")
            S(n, list(reversed([Field(f.ranges, f.kind) for f in fs])), dflt, "WIDEMASK")
    # long chains: 9..32 writable fields
    for n, w in ((9, 1), (16, 1), (32, 1), (64, 4), (128, 8), (100, 10)):
        k = n // w
        for dflt in (None, 0):
            S(n, [Field([(i * w, w)], 'u' if w not in NATIVE else 'n') for i in range(k)], dflt, "LONGCHAIN")
            S(n, [Field([(i * w, w)], 'u' if w not in NATIVE else 'n', access=('rw' if i % 3 else 'r')) for i in range(k)], dflt, "LONGCHAIN")
    # more than 32 / 64 builder steps
    for n in (33, 65):
        for dflt in (None, 0):
            S(n, [Field([(i, 1)], 'b') for i in range(n)], dflt, "LONGCHAIN")
    S(128, [Field([(i, 1)], 'b') for i in range(128)], None, "LONGCHAIN")
    # arrays with more than 32 / 64 elements: the step exists, takes the whole array, and the cover counts every element
    for n, fs in ((64, lambda: [Field([(0, 1)], 'b', arr=(64, 1))]),
                  (64, lambda: [Field([(0, 1)], 'b', arr=(33, 1)), Field([(33, 31)], 'u')]),
                  (64, lambda: [Field([(0, 1)], 'b', arr=(33, 1)), Field([(34, 30)], 'u')]),
                  (100, lambda: [Field([(0, 1)], 'b', arr=(65, 1)), Field([(65, 35)], 'u')]),
                  (100, lambda: [Field([(0, 3)], 'u', arr=(33, 3), stride_explicit=False), Field([(99, 1)], 'b')]),
                  (128, lambda: [Field([(0, 1)], 'b', arr=(128, 1))]),
                  (128, lambda: [Field([(0, 2)], 'u', arr=(64, 2), stride_explicit=False)]),
                  (128, lambda: [Field([(0, 2)], 'u', arr=(63, 2), stride_explicit=False), Field([(126, 2)], 'u', access='r')])):
        for dflt in (None, 0):
            S(n, fs(), dflt, "WIDEARR")
    return out


def bld_struct_text(s: Struct):
    return R.struct_decl(s)


def chain_automaton(s: Struct, seq):
    """BLD type-state automaton. seq: list of ('with', field index) / ('build',). Returns True iff the
    call sequence S::builder().<seq> type-checks for a struct whose builder is offered."""
    wr = [i for i, f in enumerate(s.fields) if f.writable]
    state = 0         # number of builder steps taken; 'S' once built
    for c in seq:
        if state == 'S':
            if c[0] == 'with' and c[1] in wr:
                continue          # plain with_ on the finished struct
            return False
        if c[0] == 'with':
            if state < len(wr) and wr[state] == c[1]:
                state += 1
            else:
                return False
        else:
            if state == len(wr):
                state = 'S'
            else:
                return False
    return True


def seq_text(s: Struct, seq):
    t = "S::builder()"
    for c in seq:
        if c[0] == 'with':
            f = s.fields[c[1]]
            t += f".with_{f.name}({zero_arg(f)})"
        else:
            t += ".build()"
    return t


def bld_probes(s: Struct, all_sequences=False):
    """list of (key, seq or None). key 'exists' has seq None."""
    wr = [i for i, f in enumerate(s.fields) if f.writable]
    full = [('with', i) for i in wr]
    ps = [('exists', None), ('full', full + [('build',)])]
    for cut in range(len(wr)):
        ps.append((f'prefix{cut}', full[:cut] + [('build',)]))
    for om in range(len(wr)):
        ps.append((f'omit{om}', [c for j, c in enumerate(full) if j != om] + [('build',)]))
    for sw in range(len(wr) - 1):
        sq = list(full)
        sq[sw], sq[sw + 1] = sq[sw + 1], sq[sw]
        ps.append((f'swap{sw}', sq + [('build',)]))
    if len(wr) >= 1:
        ps.append(('dup', [full[0]] + full + [('build',)]))
        ps.append(('build_twice', full + [('build',), ('build',)]))
    if all_sequences:
        alphabet = [('with', i) for i in wr] + [('build',)]
        for L_ in range(1, len(wr) + 2):
            for sq in itertools.product(alphabet, repeat=L_):
                ps.append(('seq_' + '_'.join('b' if c[0] == 'build' else str(c[1]) for c in sq), list(sq)))
    # dedupe by text
    seen, out = set(), []
    for k, sq in ps:
        key = None if sq is None else tuple(sq)
        if key in seen:
            continue
        seen.add(key)
        out.append((k, sq))
    return out


# ------------------------------------------------------------------------------------------------
# C17: access specifiers decide the API surface

def any_arg(f: Field):
    """an argument expression for the setter of f (element type), any valid value"""
    v0 = f.enum.discs[0] if f.enum is not None else 0
    e = R.to_val(f, f"{v0}u128")
    return e


def c17_structs(tier):
    from .sets import ex_enum, ne_enum
    out = []
    bases = (8, 12, 32, 64, 128) if tier == 'quick' else (8, 9, 12, 16, 17, 24, 31, 32, 33, 48, 63, 64, 65, 96, 100, 127, 128)
    for n in bases:
        kinds = []
        kinds.append(("bool", lambda: Field([(1, 1)], 'b')))
        kinds.append(("u3", lambda: Field([(1, 3)], 'u')))
        kinds.append(("u8", lambda: Field([(0, 8)], 'n')))
        kinds.append(("i8", lambda: Field([(0, 8)], 'i')))
        kinds.append(("arr_bool", lambda: Field([(0, 1)], 'b', arr=(4, 2))))
        kinds.append(("arr_u2", lambda: Field([(0, 2)], 'u', arr=(3, 2), stride_explicit=False)))
        kinds.append(("multi", lambda: Field([(5, 2), (0, 2)], 'u')))
        kinds.append(("multi_arr", lambda: Field([(0, 1), (2, 1)], 'u', arr=(2, 4))))
        kinds.append(("enum_ex", lambda: Field([(2, 2)], 'e', enum=ex_enum(2))))
        kinds.append(("enum_opt", lambda: Field([(2, 3)], 'o', enum=ne_enum(3))))
        kinds.append(("enum_opt_arr", lambda: Field([(0, 3)], 'o', enum=ne_enum(3), arr=(2, 4))))
        kinds.append(("enum_ex_arr", lambda: Field([(0, 2)], 'e', enum=ex_enum(2), arr=(2, 2), stride_explicit=False)))
        kinds.append(("nested", lambda: Field([(0, 4)], 'c', inner_n=4)))
        kinds.append(("nested_opt8", lambda: Field([(0, 8)], 'o', enum=ne_enum(8))))
        if n >= 64:
            kinds.append(("arr_bool33", lambda: Field([(0, 1)], 'b', arr=(33, 1))))
            kinds.append(("arr_bool64", lambda: Field([(0, 1)], 'b', arr=(64, 1), stride_explicit=False)))
            kinds.append(("arr_u2_32", lambda: Field([(0, 2)], 'u', arr=(32, 2))))
        if n >= 100:
            kinds.append(("arr_bool65", lambda: Field([(0, 1)], 'b', arr=(65, 1))))
            kinds.append(("arr_u3_33", lambda: Field([(0, 3)], 'u', arr=(33, 3), stride_explicit=False)))
        if n == 128:
            kinds.append(("arr_bool128", lambda: Field([(0, 1)], 'b', arr=(128, 1))))
            kinds.append(("arr_opt_40", lambda: Field([(0, 3)], 'o', enum=ne_enum(3), arr=(40, 3))))
        if n >= 32:
            kinds.append(("u16hi", lambda: Field([(n - 16, 16)], 'n')))
            kinds.append(("full", lambda: Field([(0, n)], 'n' if n in NATIVE else 'u')))
        for kname, mk in kinds:
            for acc in ('r', 'w', 'rw', ''):
                for second in (False, True):
                    f = mk()
                    if f.top() > n:
                        continue
                    f.access = acc
                    f.name = "f0"
                    f.family = 'F0'
                    fs = [f]
                    if second and f.top() < n:
                        g = Field([(n - 1, 1)], 'b', access='rw', name="g")
                        fs = [g, f] if (len(kname) % 2) else [f, g]
                    elif second:
                        continue
                    out.append((kname, Struct(n, fs, default=1, name="S", family=f"API:{kname}")))
                    # the same with the `debug` option. C19: a bitfield with a non-readable or array field does not compile with
                    # `debug`; if it is accepted nevertheless, the access rules still decide the surface
                    if not second:
                        import dataclasses
                        fd = [dataclasses.replace(x) for x in fs]
                        out.append((kname + "+debug", Struct(n, fd, default=1, name="S", family=f"API:{kname}+debug", debug=True)))
        # field names: raw identifiers (the accessors are `r#type()`, `with_type`, `set_type`), names that begin like a raw-identifier
        # prefix, and names that look like generated method names
        if n in (8, 32):
            for kname, mk in kinds[:2] + kinds[4:5]:
                for nm in ("r#ref", "r#return", "r#type", "reserved", "rw", "r_", "with", "build"):
                    for acc in ('r', 'w', 'rw', ''):
                        f = mk()
                        f.access = acc
                        f.name = nm
                        f.family = 'F0'
                        g = Field([(n - 1, 1)], 'b', access='rw', name="g")
                        out.append((kname + ":" + nm, Struct(n, [f, g] if len(nm) % 2 else [g, f], default=1, name="S", family=f"API:{kname}:{nm}", keep_names=True)))
    return out


def c17_probes(s: Struct):
    f = [x for x in s.fields if x.family == 'F0'][0]
    gname = f.name                                   # the getter carries the field's name as written (`r#type`)
    bname = f.name[2:] if f.name.startswith("r#") else f.name      # with_/set_ names are built from the bare identifier
    idx = "0, " if f.arr else ""
    idxg = "0" if f.arr else ""
    v = any_arg(f)
    ps = []
    ps.append(("get", f"pub fn p_get(s: S) {{ let _ = s.{gname}({idxg}); }}", f.readable))
    ps.append(("with", f"pub fn p_with(s: S) {{ let _ = s.with_{bname}({idx}{v}); }}", f.writable))
    ps.append(("set", f"pub fn p_set(mut s: S) {{ s.set_{bname}({idx}{v}); }}", f.writable))
    # builder: steps exist exactly for the writable fields, in declaration order
    chain = ""
    for x in s.fields:
        if x.writable:
            a = any_arg(x)
            if x.arr:
                a = "[" + ", ".join([a] * x.arr[0]) + "]"
            if x is f:
                step_prefix = chain
                f0arg = a
            chain += f".with_{x.name[2:] if x.name.startswith('r#') else x.name}({a})"
    ps.append(("bfull", f"pub fn p_bfull() -> S {{ S::builder(){chain}.build() }}", True))
    if f.writable:
        ps.append(("bstep", f"pub fn p_bstep() {{ let _ = S::builder(){step_prefix}.with_{bname}({f0arg}); }}", True))
    else:
        a = any_arg(f)
        if f.arr:
            a = "[" + ", ".join([a] * f.arr[0]) + "]"
        # try the step at every position of the chain
        pre = ""
        k = 0
        ps.append((f"bstep{k}", f"pub fn p_bstep{k}() {{ let _ = S::builder().with_{bname}({a}); }}", False))
        for x in s.fields:
            if x.writable:
                aa = any_arg(x)
                if x.arr:
                    aa = "[" + ", ".join([aa] * x.arr[0]) + "]"
                pre += f".with_{x.name[2:] if x.name.startswith('r#') else x.name}({aa})"
                k += 1
                ps.append((f"bstep{k}", f"pub fn p_bstep{k}() {{ let _ = S::builder(){pre}.with_{bname}({a}); }}", False))
    return ps
