"""Generated-crate workspaces: write, build with cargo (offline), run."""
import json, os, shutil, subprocess, sys, time, fcntl, hashlib
from . import rustgen

ROOT = os.path.dirname(os.path.dirname(os.path.dirname(os.path.abspath(__file__))))  # /verif
ENGINE = os.path.join(ROOT, "engine")
WORK = os.environ.get("VERIF_WORK", os.path.join(ROOT, "work"))
TARGET = os.environ.get("VERIF_TARGET", os.path.join(ROOT, "target"))
REPO = os.environ.get("VERIF_REPO", "/repo")

PROFILES = """
[profile.checked]
inherits = "dev"
opt-level = 0
debug = false
overflow-checks = true
debug-assertions = true
incremental = false

[profile.fast]
inherits = "release"
opt-level = 3
debug = false
overflow-checks = false
debug-assertions = false
codegen-units = 16
incremental = false

[profile.mid]
inherits = "release"
opt-level = 2
debug = false
overflow-checks = true
debug-assertions = false
codegen-units = 16
incremental = false

# the engine itself and third-party crates are always optimised; only the code generated from the
# macro (the shard crates) follows the profile under test
[profile.checked.package.regmc]
opt-level = 3
overflow-checks = false
debug-assertions = false
[profile.checked.package.stateright]
opt-level = 3
[profile.checked.package.serde_json]
opt-level = 3
[profile.checked.package.serde]
opt-level = 3
"""


class MachineryError(Exception):
    pass


def env():
    e = dict(os.environ)
    e["CARGO_NET_OFFLINE"] = "true"
    e["CARGO_TARGET_DIR"] = TARGET
    e.setdefault("CARGO_TERM_COLOR", "never")
    e.pop("RUSTFLAGS", None)
    return e


_lock_fd = None


def lock():
    """one check at a time: checks share the cargo target dir"""
    global _lock_fd
    os.makedirs(WORK, exist_ok=True)
    if os.environ.get("VERIF_NOLOCK"):
        return
    _lock_fd = open(os.path.join(WORK, ".lock"), "w")
    fcntl.flock(_lock_fd, fcntl.LOCK_EX)


def write_if_changed(path, text):
    try:
        if open(path).read() == text:
            return False
    except FileNotFoundError:
        pass
    os.makedirs(os.path.dirname(path), exist_ok=True)
    with open(path, "w") as f:
        f.write(text)
    return True


def shard_cargo(name):
    return f"""[package]
name = "{name}"
version = "0.1.0"
edition = "2021"

[lib]
doctest = false
test = false

[dependencies]
bitbybit = {{ path = "{REPO}/bitbybit" }}
arbitrary-int = "=1.3.0"
regmc = {{ path = "{ENGINE}/regmc" }}
"""


def workspace(wsname, shard_sources, spec, extra_main=""):
    """Write a workspace `wsname` with one lib crate per shard source and a runner binary.
    Returns the workspace dir. Files are only rewritten when their content changed, so cargo's
    fingerprints stay valid between runs of the same check on the same tree."""
    ws = os.path.join(WORK, wsname)
    os.makedirs(ws, exist_ok=True)
    names = [f"{wsname.replace('-', '_')}_s{i}" for i in range(len(shard_sources))]
    # drop stale shards
    for d in os.listdir(ws):
        if d.startswith(wsname.replace('-', '_') + "_s") and d not in names:
            shutil.rmtree(os.path.join(ws, d), ignore_errors=True)
    members = names + ["runner"]
    write_if_changed(os.path.join(ws, "Cargo.toml"),
                     "[workspace]\nresolver = \"2\"\nmembers = [" + ", ".join(f'"{m}"' for m in members) + "]\n" + PROFILES)
    for nm, src in zip(names, shard_sources):
        write_if_changed(os.path.join(ws, nm, "Cargo.toml"), shard_cargo(nm))
        write_if_changed(os.path.join(ws, nm, "src", "lib.rs"), src)
    deps = "\n".join(f'{nm} = {{ path = "../{nm}" }}' for nm in names)
    write_if_changed(os.path.join(ws, "runner", "Cargo.toml"), f"""[package]
name = "{wsname.replace('-', '_')}_runner"
version = "0.1.0"
edition = "2021"

[[bin]]
name = "{wsname.replace('-', '_')}_runner"
path = "src/main.rs"
test = false

[dependencies]
regmc = {{ path = "{ENGINE}/regmc" }}
{deps}
""")
    body = ["fn main() {", "  let mut ms: Vec<Box<dyn regmc::Machine>> = Vec::new();", "  let mut es: Vec<Box<dyn regmc::EnumMachine>> = Vec::new();"]
    for nm in names:
        body.append(f"  ms.extend({nm}::machines()); es.extend({nm}::enums());")
    body.append("  regmc::cli_main(ms, es);")
    body.append("}")
    write_if_changed(os.path.join(ws, "runner", "src", "main.rs"), "\n".join(body) + "\n" + extra_main)
    write_if_changed(os.path.join(ws, "spec.json"), json.dumps(spec))
    lockf = os.path.join(ws, "Cargo.lock")
    if not os.path.exists(lockf):
        seed = os.path.join(ENGINE, "regmc", "Cargo.lock")
        shutil.copy(seed, lockf)
    return ws


def cargo_build(ws, profile, quiet=True):
    """Build the workspace. Returns (ok, seconds, diagnostics text in rustc's short format). A failure to build
    the macro crate itself is a machinery failure; compile errors inside generated shards are returned to the caller.
    After a successful build, stale artefacts of this workspace's crates (other hashes, left behind by builds
    against other states of the macro) are deleted from the shared target directory."""
    t0 = time.time()
    cmd = ["cargo", "build", "--offline", "--profile", profile, "--message-format=json-diagnostic-short"]
    p = subprocess.run(cmd, cwd=ws, env=env(), capture_output=True, text=True)
    dt = time.time() - t0
    diags, artifacts = [], []
    for l in p.stdout.splitlines():
        if not l.startswith("{"):
            continue
        try:
            d = json.loads(l)
        except ValueError:
            continue
        if d.get("reason") == "compiler-message":
            r = (d.get("message") or {}).get("rendered")
            if r:
                diags.append(r.rstrip("\n"))
        elif d.get("reason") == "compiler-artifact":
            artifacts += d.get("filenames", [])
            if d.get("executable"):
                artifacts.append(d["executable"])
    text = "\n".join(diags) + "\n" + p.stderr
    if p.returncode != 0:
        if "could not compile `bitbybit`" in text and "_s" not in text.split("could not compile `bitbybit`")[0][-200:]:
            raise MachineryError("the bitbybit macro crate itself does not build:\n" + text[-3000:])
        return False, dt, text
    gc_stale(ws, profile, artifacts)
    return True, dt, text


def gc_stale(ws, profile, artifacts):
    import glob, re
    stem = os.path.basename(ws).replace('-', '_')
    keep = set()          # (crate, hash)
    for f in artifacts:
        m = re.match(r"(?:lib)?(" + re.escape(stem) + r"_(?:s\d+|runner))-([0-9a-f]{16})", os.path.basename(f))
        if m:
            keep.add((m.group(1), m.group(2)))
    if not keep:
        return
    crates = {c for c, _ in keep}
    pd = os.path.join(TARGET, profile)
    for sub, pre in (("deps", "lib"), ("deps", ""), (".fingerprint", "")):
        for f in glob.glob(os.path.join(pd, sub, f"{pre}{stem}_*")):
            m = re.match(r"(?:lib)?(" + re.escape(stem) + r"_(?:s\d+|runner))-([0-9a-f]{16})", os.path.basename(f))
            if not m or m.group(1) not in crates or (m.group(1), m.group(2)) in keep:
                continue
            if os.path.isdir(f):
                shutil.rmtree(f, ignore_errors=True)
            else:
                try:
                    os.remove(f)
                except OSError:
                    pass


def runner_path(ws, profile):
    wsname = os.path.basename(ws).replace('-', '_')
    return os.path.join(TARGET, profile, f"{wsname}_runner")


def run(ws, profile, mode, args=(), out_name=None, timeout=None):
    out = os.path.join(ws, out_name or f"report-{mode}-{profile}.json")
    try:
        os.remove(out)
    except FileNotFoundError:
        pass
    cmd = [runner_path(ws, profile), mode, "--spec", os.path.join(ws, "spec.json"), "--out", out] + [str(a) for a in args]
    t0 = time.time()
    p = subprocess.run(cmd, capture_output=True, text=True, timeout=timeout)
    dt = time.time() - t0
    if p.returncode != 0 or not os.path.exists(out):
        raise MachineryError(f"runner failed ({p.returncode}): {' '.join(cmd)}\n{p.stdout[-2000:]}\n{p.stderr[-3000:]}")
    rep = json.load(open(out))
    rep["_runner_wall_s"] = dt
    rep["_stdout"] = p.stdout.strip()
    return rep


def shard(structs, max_fields=4000, min_shards=16):
    """Split a struct list into shards (lists of structs) of at most max_fields fields; aims for
    at least min_shards shards when there is enough material, so cargo compiles them in parallel."""
    total = sum(max(1, len(s.fields)) for s in structs)
    nsh = max(1, min(len(structs), max(min_shards, -(-total // max_fields))))
    target = -(-total // nsh)
    shards, cur, cnt = [], [], 0
    for s in structs:
        cur.append(s)
        cnt += max(1, len(s.fields))
        if cnt >= target and len(shards) < nsh - 1:
            shards.append(cur)
            cur, cnt = [], 0
    if cur:
        shards.append(cur)
    return shards


def name_structs(structs, prefix="S"):
    import dataclasses
    for i, s in enumerate(structs):
        s.name = f"{prefix}{i}"
        # fields may be shared between structs by the enumerators: give every struct its own copies
        s.fields = [dataclasses.replace(f, name=(f.name if (f.name and getattr(s, "keep_names", False)) else f"f{j}")) for j, f in enumerate(s.fields)]
    return structs


def build_machine_set(wsname, structs, profile, enum_adapters_by_shard=None, enums_extra=None, extra_enum_specs=None, dropped=None):
    """name, shard, generate, build. Returns (ws, build_ok, build_seconds, diagnostics).
    If `dropped` is a list, structs whose generated code rustc rejects are removed (appended to `dropped` as
    (struct, [error lines])) and the rest is rebuilt, so that one rejected declaration does not hide the others."""
    import re
    total_dt = 0.0
    structs = list(structs)
    for attempt in range(4):
        shards = shard(structs)
        srcs, spans = [], []
        for i, sh in enumerate(shards):
            sp = []
            srcs.append(rustgen.shard_source(sh, spans=sp))
            spans.append(sp)
        spec = {"machines": [rustgen.spec_struct(s) for s in structs], "enums": extra_enum_specs or []}
        cross_check(structs, spec)
        ws = workspace(wsname, srcs, spec)
        ok, dt, diag = cargo_build(ws, profile)
        total_dt += dt
        if ok or dropped is None:
            return ws, ok, total_dt, diag
        # attribute error lines to structs
        prefix = wsname.replace('-', '_') + "_s"
        bad = {}
        for m in re.finditer(r"^(?:\S*/)?(" + re.escape(prefix) + r"(\d+))/src/lib\.rs:(\d+):\d+: (error.*)$", diag, re.M):
            si, ln, msg = int(m.group(2)), int(m.group(3)), m.group(4)
            if si >= len(spans):
                continue
            for a, b, name in spans[si]:
                if a <= ln <= b:
                    bad.setdefault(name, []).append(msg[:300])
                    break
        if not bad:
            return ws, False, total_dt, diag
        by_name = {s.name: s for s in structs}
        for name, msgs in bad.items():
            dropped.append((by_name[name], msgs))
        structs = [s for s in structs if s.name not in bad]
        if not structs:
            return ws, False, total_dt, diag
    return ws, False, total_dt, diag


def build_enum_set(wsname, eds, profile, per_shard=None):
    """enum machines: shard the enum list, generate, build"""
    total = sum(len(e.discs) + len(e.dead) + 4 for e in eds)
    nsh = max(1, min(len(eds), max(16, total // 6000)))
    size = -(-len(eds) // nsh)
    shards = [eds[i:i + size] for i in range(0, len(eds), size)]
    srcs = [rustgen.enum_shard_source(sh) for sh in shards]
    spec = {"machines": [], "enums": [rustgen.enum_spec(e) for e in eds]}
    ws = workspace(wsname, srcs, spec)
    ok, dt, diag = cargo_build(ws, profile)
    return ws, ok, dt, diag


def build_mixed_set(wsname, structs, eds, profile, enum_ctab=False):
    """struct shards + enum shards in one workspace"""
    shards = shard(structs) if structs else []
    srcs = [rustgen.shard_source(sh) for sh in shards]
    if eds:
        nsh = max(1, min(len(eds), 8))
        size = -(-len(eds) // nsh)
        for i in range(0, len(eds), size):
            srcs.append(rustgen.enum_shard_source(eds[i:i + size], ctab=enum_ctab))
    spec = {"machines": [rustgen.spec_struct(s) for s in structs], "enums": [rustgen.enum_spec(e) for e in eds]}
    cross_check(structs, spec)
    ws = workspace(wsname, srcs, spec)
    ok, dt, diag = cargo_build(ws, profile)
    return ws, ok, dt, diag


def cross_check(structs, spec):
    """the declaration text shown to the macro is re-parsed by an independent parser and must describe the
    same layout as the spec handed to the reference register"""
    from . import reparse
    for s, ms in zip(structs, spec["machines"]):
        errs = reparse.check_struct(rustgen.struct_decl(s), ms)
        if errs:
            raise MachineryError(f"generator: declaration text and layout spec disagree for {s.name}: {errs[:3]}")


def clean_workspaces(pred):
    """remove generated workspaces (sources) and their build outputs from the shared target dir;
    pred(wsname) selects. Used after thorough runs to keep the disk bounded."""
    import glob
    if not os.path.isdir(WORK):
        return
    for ws in os.listdir(WORK):
        if not os.path.isdir(os.path.join(WORK, ws)) or not pred(ws):
            continue
        stem = ws.replace('-', '_')
        shutil.rmtree(os.path.join(WORK, ws), ignore_errors=True)
        for prof in os.listdir(TARGET) if os.path.isdir(TARGET) else []:
            pd = os.path.join(TARGET, prof)
            for pat in (f"deps/lib{stem}_s*", f"deps/{stem}_s*", f"deps/{stem}_runner*", f"{stem}_runner*", f"lib{stem}_s*", f".fingerprint/{stem}_s*",
                        f".fingerprint/{stem}_runner*", f"incremental/{stem}_*"):
                for f in glob.glob(os.path.join(pd, pat)):
                    if os.path.isdir(f):
                        shutil.rmtree(f, ignore_errors=True)
                    else:
                        try:
                            os.remove(f)
                        except OSError:
                            pass
