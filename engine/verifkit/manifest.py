"""Generates /verif/MANIFEST.json from the table below (python3 -m verifkit.manifest)."""
import json, os, sys

ROOT = os.path.dirname(os.path.dirname(os.path.dirname(os.path.abspath(__file__))))

REGMC_NOTE = ("Trusted: rustc/cargo 1.95, arbitrary-int 1.3.0, the generated Machine adapters (mechanical casts), the bit-at-a-time "
              "reference register REG. Raw values of bases wider than the stated full-enumeration bound and field values wider than "
              "the stated bound are covered by finite alphabets (walking one/zero, 0xAA/0x55, nibble ramps, per-field masks), not by all values.")
DECL_NOTE = ("Trusted: rustc 1.95 as the acceptor (JSON diagnostics, primary spans, error codes), the Python reference predicate written "
             "from the property text. The declaration space is infinite; the bounded grammar enumerated is stated in DESIGN.md section 6.")

T = {
    'C01': dict(engine='regmc', technique="explicit-state enumeration: every raw value (all 2^N for N<=16) x every field placement, real generated getter vs bit-by-bit reference register",
                text="Exhaustive enumeration on the real generated code: for every base u1..u16 every (lo,hi) x field kind and all 2^N raw values; wide bases through boundary/ladder/edge families (quick) or every (lo,hi) of every base up to u128 (thorough, incl. all 2^32 raw values of a u32 base) with the state alphabet A(N). Each getter observation is compared with REG.",
                ref="DESIGN.md 6/C01", note=REGMC_NOTE),
    'C02': dict(engine='regmc', technique="explicit-state enumeration of (state, field, value) transitions for with_ and set_, step-wise comparison with the reference register",
                text="Every transition (raw value, field, value, with_|set_) of the layout alphabet is executed on the generated code and compared with REG's ref_put (frame condition), the read-back and the set_/with_ agreement; all 2^N x 2^w combinations for N<=16, w<=8 (thorough: w<=16), alphabets above. Range lists that name a bit twice (accepted; values undetermined) are swept with the partial oracle 'no panic, bits outside the named set unchanged, set_ == with_'.",
                ref="DESIGN.md 6/C02", note=REGMC_NOTE),
    'C03': dict(engine='regmc', technique="explicit-state enumeration over array layouts: every element index, state, value, plus an out-of-range index alphabet that must panic",
                text="All array layouts (lo, w, stride, K) that fit bases up to u16, boundary families for wide bases, multi-range element arrays; every in-range index against REG with the index*stride offset; every out-of-range index of the alphabet must panic in get/with_/set_ and leave the set_ receiver untouched.",
                ref="DESIGN.md 6/C03", note=REGMC_NOTE),
    'C04': dict(engine='regmc', technique="explicit-state enumeration over ordered disjoint range lists (incl. all bit permutations of u8 in thorough), gather/scatter vs reference register",
                text="Every ordered list of pairwise-disjoint ranges within the stated bounds, and arrays of such elements incl. interleaving ones, swept over all states and values for N<=16; REG's position walk in declaration order is the oracle for both gather and scatter.",
                ref="DESIGN.md 6/C04", note=REGMC_NOTE),
    'C05': dict(engine='regmc', technique="explicit-state enumeration over signed field layouts, two's-complement pattern vs reference register",
                text="All iN members of the layout families plus dedicated signed machines (every position on small bases, arrays, multi-range); every state x every 8-bit pattern (16-bit in thorough), alphabets with -1/MIN/MAX above; sign-extension leaks show as frame violations.",
                ref="DESIGN.md 6/C05", note=REGMC_NOTE),
}

T.update({
    'C06': dict(engine='regmc', technique="explicit-state enumeration of all raw values per base (all 2^N for N<=16) and of every default form, on the generated constants/constructors",
                text="Every base u1..u128 x default form {none, literal, named constant} x {=, :} x boundary default values: raw round trip over all 2^N raw values (N<=16; 24 and the full u32 space in thorough), ZERO/DEFAULT/Default/new() bit-for-bit, size_of/align_of and Copy.",
                ref="DESIGN.md 6/C06", note=REGMC_NOTE),
    'C07': dict(engine='regmc', technique="explicit-state enumeration: every N-bit raw value (all 2^N for N<=16) x every bitenum of the bounded declaration alphabet, both conversions vs a discriminant dictionary",
                text="For N<=3 every non-empty discriminant set in several declaration orders and every accepted exhaustive form, N=4 extreme sizes (all sets in thorough), N 5..8 boundary sets, every N in 9..=64 with boundary discriminants; new_with_raw_value over all 2^N raw values (N<=16) must return the variant / Err(x) and never panic; raw_value and both round trips checked.",
                ref="DESIGN.md 6/C07", note=REGMC_NOTE),
    'C08': dict(engine='regmc', technique="explicit-state enumeration over enum-/Option<enum>-/nested-bitfield-typed field layouts, real accessors vs reference register with a discriminant dictionary",
                text="Exhaustive enums, Option<non-exhaustive enum> (widths 1..8, 9, 16, 17, 32, 33, 63, 64) and nested bitfields (11 widths) placed as scalars (incl. full-width), arrays, split ranges and multi-range arrays on every base <=16 (all states) and the wide bases (alphabet); getter must equal T::new_with_raw_value(ref_get), writes must equal ref_put(T::raw_value).",
                ref="DESIGN.md 6/C08", note=REGMC_NOTE),
    'C16': dict(engine='regmc', technique="the exhaustive sweeps of C01-C05/C07/C08 executed in two build profiles; panic observations and per-machine observation digests compared",
                text="All quick machine sets are built with opt-level 0 + overflow checks + debug assertions and with opt-level 3 without, and swept identically against REG; any Panicked observation other than an out-of-range index, any reference mismatch in either profile and any digest difference between the profiles is a violation. Accepted declarations whose values no property fixes (range lists naming a bit twice, accepted out-of-range declarations) are swept too, with the panic / outside-the-field / digest oracles only.",
                ref="DESIGN.md 6/C16", note=REGMC_NOTE + " 'Any optimisation level' is covered as that pair of profiles."),
})

T.update({
    'C11': dict(engine='regmc', technique="explicit-state model checking of the product (generated object x reference register): hand sweeper fixed point over all 2^N states for N<=16, stateright BFS (fixed point N<=12, depth-bounded from a stated alphabet for wide bases)",
                text="Product machine over mixed layouts of every non-native base: all states initial and all actions to a fixed point for N<=16 (closure reported), depth-2/3 BFS from A(N) for wide bases; in every reached state raw_value() must not panic and be < 2^N, every getter must agree between the object and its re-wrap, the object must equal its re-wrap (storage), and raw_value() must equal the reference register.",
                ref="DESIGN.md 6/C11", note=REGMC_NOTE + " For bases wider than 16 bits the claim is 'no violation within depth d from A(N) with the stated argument alphabet'."),
    'C12': dict(engine='regmc', technique="explicit-state model checking of the product (generated object x per-bit shadow) with stateright BFS and a hand-written frontier sweeper; closure of the full state set for N<=16 gives all history lengths by induction",
                text="Mixed layouts with overlapping fields and overlapping array elements, one per base; N<=16: every state x every write action, successor compared bit for bit with the shadow and observed through every getter, state set closed => histories of every length; wide bases: depth-2 (thorough: 3) BFS from A(N); stateright and the sweeper must agree on the unique-state counts for N<=12.",
                ref="DESIGN.md 6/C12", note=REGMC_NOTE + " For bases wider than 16 bits histories are bounded by the stated depth."),
    'C13': dict(engine='regmc', technique="bounded-exhaustive enumeration of builder layouts x argument tuples (full product up to a cap), builder chain vs fold of with_ from DEFAULT/ZERO and vs the reference register",
                text="All compositions of N<=8 (thorough 14) bits into 1-4 fields in several declaration orders, with default / read-only part / uncovered gap, arrays of every K on u8/u16 and large K on wide bases, multi-range/interleaved/signed/enum/nested steps, arbitrary-int bases; every argument tuple of the full product (<= 65536, thorough 2^22) or one-factor-at-a-time beyond it.",
                ref="DESIGN.md 6/C13", note=REGMC_NOTE),
})

T.update({
    'C09': dict(engine='declmc', technique="bounded-exhaustive enumeration of the declaration grammar; every declaration is run through the real macro + rustc and its verdict compared in both directions with a reference acceptance predicate",
                text="Tens of thousands of one-field declarations (full product over small bases incl. lo>hi, wrong widths, K in {1,2,3}, strides around the width; boundary product over wide and arbitrary bases; unsupported bases) are compiled; valid => accepted and usable through codegen, invalid => an error located at the declaration. Thorough also builds the macro without overflow checks.",
                ref="DESIGN.md 6/C09", note=DECL_NOTE),
    'C10': dict(engine='declmc', technique="bounded-exhaustive enumeration of bitenum declarations (all discriminant sets and orders for N<=3), rustc verdict vs reference predicate in both directions",
                text="Every discriminant set drawn from [0, 2^N+1] for N in {1,2,3} in several/all declaration orders x every exhaustive form and spelling x cfg'd variants, duplicates, malformed variants, storage boundaries up to u64 and unsupported sizes; accepted valid enums are recompiled with both conversions used.",
                ref="DESIGN.md 6/C10", note=DECL_NOTE),
    'C14': dict(engine='declmc', technique="bounded-exhaustive enumeration of layouts x builder call sequences; rustc's verdict on every probe program compared with a reference type-state automaton",
                text="Builder existence over every struct of 1-3 fields on u2 (u3 partly; fully in thorough) with every access x default, plus families for overlapping array elements (adjacent and not), self-overlapping range lists, gaps and declared-width completeness; type-state over the full chain, every prefix, omission, swap, duplicate and, for representative layouts, every call sequence up to length k+1.",
                ref="DESIGN.md 6/C14", note=DECL_NOTE),
    'C17': dict(engine='declmc', technique="bounded-exhaustive enumeration of field kind x access x base; presence probes must compile, absence probes must be rejected by rustc",
                text="Every field kind (14-16 kinds incl. arrays, multi-range, enums, Option<enum>, nested) x access {r,w,rw,none} x bases x neighbourhood; getter / with_ / set_ / builder-step probes compared with the API reference model.",
                ref="DESIGN.md 6/C17", note=DECL_NOTE),
    'C19': dict(engine='regmc', technique="explicit-state enumeration of all raw values (N<=12/20) x debug layouts (1..128 fields); {:?} and {:#?} text compared with a derive(Debug) twin filled from the reference register",
                text="Debug layouts with every readable scalar kind in several declaration orders; for every raw value (all 2^N for small bases, alphabet for wide) both format modes must equal the text rustc's derive(Debug) produces for a twin struct holding the reference values.",
                ref="DESIGN.md 6/C19", note=REGMC_NOTE + " rustc's derive(Debug) defines the standard struct format."),
})

T.update({
    'C15': dict(engine='regmc', technique="exhaustive compile-time tables (rustc's const evaluator runs every generated const fn over all 2^N states for N<=8) compared entry by entry with run-time execution",
                text="For a cross-section of layouts and bitenums, `static` tables over the whole state space (N<=8; alphabets above) are computed in const context for raw_value, every getter, every with_, builder chains + build(), ZERO, DEFAULT, new() and both enum conversions; a non-const generated fn fails the build with E0015 (reported as a violation); every entry is compared with the same call at run time.",
                ref="DESIGN.md 6/C15", note=REGMC_NOTE + " The const evaluator of rustc 1.95 is trusted to be the 'const context'."),
    'C18': dict(engine='declmc', technique="bounded-exhaustive enumeration of a documented layout cross-section x 6 compile regimes (rustc), plus a syn scan of the -Zunpretty=expanded token stream",
                text="Several hundred documented structs and enums covering every feature are compiled under #![no_std], #![deny(missing_docs)], #![forbid(unsafe_code)], all three, inside a module that has its own item named `core`, and inside a module that imports none of arbitrary_int's names; the macro-expanded source is parsed and every path/unsafe token checked (no unsafe outside compiler derives, nothing rooted outside core/arbitrary_int).",
                ref="DESIGN.md 6/C18", note=DECL_NOTE),
})


def main():
    sys.path.insert(0, os.path.join(ROOT, "engine"))
    from verifkit import props, props_decl
    props_all = [json.loads(l) for l in open(os.path.join(ROOT, "properties.jsonl"))]
    checks, na = [], []
    for p in props_all:
        pid = p['id']
        if pid in props.PROPS and pid in T:
            t = T[pid]
            checks.append({
                "property_id": pid,
                "quick_cmd": f"./check {pid} quick",
                "thorough_cmd": f"./check {pid} thorough",
                "evidence_file": f"/verif/evidence/{pid}.json",
                "replay_cmd_template": "./check replay {path}",
                "engine": t['engine'],
                "level_claimed": {"category": "model_checking", "text": t['text'], "design_ref": t['ref']},
                "level_note": t['note'],
                "technique": t['technique'],
            })
        else:
            na.append({"property_id": pid, "reason": "check not built yet in this revision of /verif (planned, see DESIGN.md section 6)"})
    m = {
        "version": 1,
        "setup_cmd": "./check setup",
        "hooks": {
            "guard": "none",
            "enable": "no source hooks: the engines drive only the public generated API (plus a byte copy of the Copy object) and rustc's own diagnostics; checks build /repo/bitbybit as a path dependency",
            "baseline_off_cmd": "cd /repo && cargo test --workspace --no-fail-fast --offline",
            "source_commits": [],
            "add_only": True,
        },
        "engines": [
            {"name": "regmc", "path": "/verif/engine/regmc", "serves_properties": [c["property_id"] for c in checks if c["engine"] == "regmc"],
             "kind_free_text": "Rust explicit-state sweeper + stateright product machine over the code rustc generates from the real macro, against a bit-by-bit reference register"},
            {"name": "declmc", "path": "/verif/engine/verifkit", "serves_properties": [c["property_id"] for c in checks if c["engine"] == "declmc"],
             "kind_free_text": "Python bounded-exhaustive enumeration of declarations / probe programs, real rustc as the step function, reference acceptance models"},
        ],
        "checks": checks,
        "not_applicable": na,
        "notes": "Two genuine defects were repaired in /repo as 'fix:' commits (8d61305, 54d1def), see known_findings.json and DESIGN.md section 7.",
    }
    # an explicit empty list: every listed property is claimed
    json.dump(m, open(os.path.join(ROOT, "MANIFEST.json"), "w"), indent=1)
    try:
        import jsonschema
        jsonschema.validate(m, json.load(open(os.path.join(ROOT, "engine", "MANIFEST.schema.json"))))
        print("MANIFEST.json valid;", len(checks), "checks,", len(na), "not applicable")
    except ImportError:
        print("MANIFEST.json written (jsonschema not available)")


if __name__ == '__main__':
    main()
