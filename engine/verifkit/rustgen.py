"""Rust text generation: declarations (through the real macros) and Machine adapters."""
from .model import *


def base_ty(n):
    return f"u{n}"


def prim(w):
    return f"u{storage(w)}"


def is_native(w):
    return w in NATIVE


def base_new(n, e):
    """expression of type u<n> (arbitrary or native) from a u128 expression"""
    if is_native(n):
        return f"({e} as u{n})"
    return f"u{n}::new({e} as {prim(n)})"


def base_val(n, e):
    if is_native(n):
        return f"({e} as u128)"
    return f"({e}.value() as u128)"


# ---------------------------------------------------------------------------------------------
# enums

def enum_decl(ed: EnumDef, derive_debug=False, doc=False, vis='pub'):
    args = f"u{ed.n}"
    if not ed.omit_exh:
        ex = f"exhaustive {ed.spell} {ed.exhaustive}" if ed.spell == '=' else f"exhaustive: {ed.exhaustive}"
        args = f"{ex}, {args}" if getattr(ed, "exh_first", False) else f"{args}, {ex}"
    allv = [(d, True) for d in ed.discs] + [(d, False) for d in ed.dead]
    if ed.dead_first:
        allv = [(d, False) for d in ed.dead] + [(d, True) for d in ed.discs]
    vs = []
    dead_k = 0
    for d, live in allv:
        pre = ''
        if doc or (not ed.alias and (d + len(allv)) % 4 == 2):
            pre += f"/// variant {d}\n    "
        if ed.exhaustive == 'conditional':
            # live variants of conditional enums alternate between plain and #[cfg(all())]
            if not live:
                # compiled-out variants: a single false cfg, or two stacked cfgs of which only the second is false
                pre += "#[cfg(any())] " if (d + ed.n) % 2 == 0 else "#[cfg(all())] #[cfg(any())] "
            elif d % 2 == 1:
                pre += "#[cfg(all())] " if d % 4 == 1 else "/** doc before cfg */ #[cfg(all())] #[cfg(not(any()))] "
        lit = fmt_disc(d)
        if live and not ed.alias and not doc:
            # attributes other than cfg on variants are passed through (and must not confuse the cfg handling)
            pre += ("", "#[allow(dead_code)] ", "#[doc(hidden)] ", "")[(d + ed.n) % 4]
        if live:
            vs.append(f"    {pre}V{d:x} = {lit},")
        else:
            # compiled-out variants may carry the discriminant of a live one (mutually exclusive cfgs)
            dead_k += 1
            vs.append(f"    {pre}X{dead_k}_{d:x} = {lit},")
    rep = ''
    mx = max([d for d, _ in allv] + [0])
    if mx >= (1 << 63):
        rep = '#[repr(u64)] '
    elif mx >= (1 << 31):
        rep = '#[repr(u64)] '
    # stand-alone enums (not used as field types) rotate derives and visibility; both are passed through by the macro
    k = sum(ed.discs) + len(ed.discs) + ed.n if not ed.alias else 0
    if derive_debug:
        der = '#[derive(Debug, PartialEq, Eq)] ' if k % 3 != 1 else '#[derive(PartialEq, Debug)] '
    else:
        der = '#[derive(PartialEq, Eq)] '
    if not ed.alias and not doc and vis == 'pub' and k % 4 == 3:
        vis = 'pub(crate)'
    d = '/// enum\n' if doc else ''
    body = "\n".join(vs)
    return f"{d}#[bitenum({args})] {rep}{der}{vis} enum {ed.name} {{\n{body}\n}}"


def fmt_disc(d):
    # spread literal spellings deterministically: dec / hex / bin / oct / underscore
    k = d % 5
    if k == 0 or d < 2:
        return str(d)
    if k == 1:
        return hex(d)
    if k == 2:
        return bin(d) if d < (1 << 16) else hex(d)
    if k == 3:
        return oct(d).replace('0o', '0o')
    s = str(d)
    return s[:-1] + '_' + s[-1] if len(s) > 1 else s


def enum_to_disc(ed: EnumDef, e):
    arms = " ".join(f"{ed.name}::V{d:x} => {d}u128," for d in ed.discs)
    return f"(match {e} {{ {arms} }})"


def enum_from_disc(ed: EnumDef, e):
    arms = " ".join(f"{d}u128 => {ed.name}::V{d:x}," for d in ed.discs)
    return f"(match {e} {{ {arms} _ => panic!(\"harness: not a discriminant of {ed.name}\") }})"


# ---------------------------------------------------------------------------------------------
# fields

def inner_name(n):
    # a user type whose name is "letter + digits" on purpose (must not be mistaken for an integer type)
    return f"N{n}"


def inner_decl(n, debug=False, doc=False):
    d = '/// inner\n' if doc else ''
    fd = '    /// all bits\n' if doc else ''
    dbg = ', debug' if debug else ''
    t = f"u{n}"
    return (f"{d}#[bitfield(u{n}{dbg})] #[derive(PartialEq, Eq)] pub struct {inner_name(n)} {{\n{fd}"
            f"    #[bits(0..={n - 1}, rw)] all: {t},\n}}")


def elem_ty(f: Field):
    w = f.w
    k = f.kind
    if k == 'b':
        return 'bool'
    if k == 'u':
        return f"arbitrary_int::u{w}" if f.qualified else f"u{w}"
    if k == 'n':
        return f"u{w}"
    if k == 'i':
        return f"i{w}"
    q = "self::" if f.qualified else ""
    a = "A" if getattr(f, "type_alias", False) else ""       # `pub type AX2 = X2;`
    if k == 'e':
        return q + a + f.enum.name
    if k == 'o':
        return f"{getattr(f, 'opt_path', '')}Option<{q}{a}{f.enum.name}>"
    if k == 'c':
        return q + a + inner_name(f.inner_n)
    raise ValueError(k)


def field_ty(f: Field):
    t = elem_ty(f)
    if f.arr:
        return f"[{t}; {f.arr[0]}]"
    return t


def getter_elem_ty(f: Field):
    """type the getter returns (element type)"""
    if f.kind == 'o':
        return f"Result<{f.enum.name}, {prim(f.w)}>"
    return elem_ty(f)


def setter_elem_ty(f: Field):
    if f.kind == 'o':
        return f.enum.name
    return elem_ty(f)


def sname(f: Field):
    """name used in with_<name> / set_<name>: a raw identifier loses its r# prefix"""
    return f.name[2:] if f.name.startswith("r#") else f.name


def attr_text(f: Field, idx_for_spelling=0):
    form = f.form
    if len(f.ranges) == 1 and form == 'list1':
        # a range list with a single member
        lo, l = f.ranges[0]
        a = f"bits([{lo}]" if (l == 1 and idx_for_spelling % 2 == 0) else f"bits([{lo}..={lo + l - 1}]"
    elif len(f.ranges) == 1:
        lo, l = f.ranges[0]
        if form == 'auto':
            if f.kind == 'b':
                form = 'bit'
            elif l == 1 and idx_for_spelling % 2 == 1:
                form = 'bit'
            else:
                form = 'bits'
        a = f"bit({lo}" if form == 'bit' else f"bits({lo}..={lo + l - 1}"
    else:
        parts = []
        for j, (lo, l) in enumerate(f.ranges):
            if l == 1 and (j + idx_for_spelling) % 2 == 0:
                parts.append(f"{lo}")
            else:
                parts.append(f"{lo}..={lo + l - 1}")
        a = "bits([" + ", ".join(parts) + "]"
    head, rng = a.split("(", 1)
    parts = {'r': rng, 'a': (getattr(f, "access_split", "") or f.access) or None,
             's': ((f"stride = {f.arr[1]}" if f.stride_sep == '=' else f"stride: {f.arr[1]}") if (f.arr and f.stride_explicit) else None)}
    order = getattr(f, "arg_order", "ras") or "ras"
    trailing = "," if order.endswith(",") else ""
    return head + "(" + ", ".join(parts[k] for k in order if k in parts and parts[k]) + trailing + ")"


def field_text(f: Field, i=0):
    return f"#[{attr_text(f, i)}] {f.name}: {field_ty(f)}"


def to_val(f: Field, e):
    """expression of the setter's element type from a u128 expression"""
    w, k = f.w, f.kind
    if k == 'b':
        return f"({e} != 0)"
    if k == 'n':
        return f"({e} as u{w})"
    if k == 'i':
        return f"({e} as u{w} as i{w})"
    if k == 'u':
        return f"u{w}::new({e} as {prim(w)})"
    if k in 'eo':
        return enum_from_disc(f.enum, e)
    if k == 'c':
        return f"{inner_name(f.inner_n)}::new_with_raw_value({base_new(f.inner_n, e)})"
    raise ValueError(k)


def from_val(f: Field, e):
    """u128 observation from a getter result expression"""
    w, k = f.w, f.kind
    if k == 'b':
        return f"({e} as u128)"
    if k == 'n':
        return f"({e} as u128)"
    if k == 'i':
        return f"({e} as u{w} as u128)"
    if k == 'u':
        return f"({e}.value() as u128)"
    if k == 'e':
        return enum_to_disc(f.enum, e)
    if k == 'o':
        return f"(match {e} {{ Ok(x) => {enum_to_disc(f.enum, 'x')}, Err(y) => regmc::ERR_FLAG | (y as u128) }})"
    if k == 'c':
        return base_val(f.inner_n, f"{e}.raw_value()")
    raise ValueError(k)


# ---------------------------------------------------------------------------------------------
# structs

def head_text(s: Struct, const_name=None):
    args = base_ty(s.n)
    if s.debug and getattr(s, "debug_first", False):
        args += ", debug"
    if s.default is not None:
        val = const_name if s.default_form == 'const' else default_lit(s)
        args += f", default = {val}" if s.default_sep == '=' else f", default: {val}"
    if s.debug and not getattr(s, "debug_first", False):
        args += ", debug"
    vis = getattr(s, "vis", "pub")
    return f"#[bitfield({args})] {vis + ' ' if vis else ''}struct {s.name}"


def default_lit(s: Struct):
    """the default literal in one of several spellings (decimal, hex, binary, underscored), chosen by the value"""
    d = s.default
    if d <= 9:
        return str(d)
    k = (d ^ s.n) % 8
    if k >= 4:
        # ordinary Rust integer literals: a type suffix (the storage integer's type), digit separators, or both
        P = prim(s.n)
        h = f"{d:x}"
        parts = []
        while h:
            parts.append(h[-4:])
            h = h[:-4]
        us = "0x" + "_".join(reversed(parts))
        if k == 4:
            return f"{d}{P}"
        if k == 5:
            return us + P if not us[-1] in "abcdef" or True else us
        if k == 6:
            return us + "_" + P
        ds = str(d)
        g = []
        while ds:
            g.append(ds[-3:])
            ds = ds[:-3]
        return "_".join(reversed(g))
    if k == 0:
        return str(d)
    if k == 1:
        return hex(d)
    if k == 2:
        return bin(d)
    h = f"{d:x}"
    parts = []
    while h:
        parts.append(h[-4:])
        h = h[:-4]
    return "0x" + "_".join(reversed(parts))


def struct_decl(s: Struct, derives='', doc=False):
    doc = doc or getattr(s, "doc", False)
    lines = []
    cn = None
    if s.default is not None and s.default_form == 'const':
        cn = f"DV_{s.name.upper()}"
        # the constant has the primitive type the macro's `uN::new(..)` / `const X: uN = ..` expects
        if doc:
            lines.append("/// the user's default constant")
        lines.append(f"pub const {cn}: {prim(s.n)} = {default_lit(s)};")
    doc_after = doc and getattr(s, "doc_after_attrs", False)
    if doc and not doc_after:
        lines.append("/// documented struct")
    lines.append(head_text(s, cn) + " {")
    for i, f in enumerate(s.fields):
        if doc or f.doc:
            # the documentation of a field may be written in any of the forms rustdoc accepts; each alone must be enough
            if i % 6 == 3:
                lines.append('    #[doc = concat!("documented field, ", "by a macro expression")]')
            elif i % 6 == 4:
                if i % 12 == 4:
                    lines.append('    #[doc = "documented by an attribute only"]')
                # else: the only documentation of this field is written after its bit-range attribute (below)
            elif i % 6 == 5:
                lines.append('    #[doc = stringify!(documented by another macro expression)]')
            else:
                lines.append(f"    /// documented field {f.name}")
                if i % 6 == 1:
                    lines.append("    ///")
                    lines.append("    /// second paragraph of the field's documentation, with `code` and a [link](https://example.org)")
                elif i % 6 == 2:
                    lines.append('    #[doc = "documentation written as an attribute"]')
        ft = field_text(f, i)
        if (doc or f.doc) and i % 12 == 10 and ")] " in ft:
            # the documentation may also be written between the field's attribute and its name
            k = ft.index(")] ") + 2
            lines.append(f"    {ft[:k]}")
            lines.append("    /// a doc comment placed after the bit-range attribute")
            lines.append(f"    {ft[k + 1:]},")
        else:
            lines.append(f"    {ft},")
    lines.append("}")
    txt = "\n".join(lines)
    derives = derives or getattr(s, "derives", "")
    if doc_after and not derives:
        derives = "#[derive(PartialEq, Eq)]"
    if derives:
        import re as _re
        mid = f"] {derives} " + ("\n/// documented struct (doc comment written after the user's attributes)\n" if doc_after else "")
        txt = _re.sub(r"\] ((?:pub(?:\(crate\))? )?struct)", lambda m: mid + m.group(1), txt, count=1)
    return txt


def required_types(structs):
    """enum definitions and inner bitfields referenced by the fields"""
    enums, inners = {}, set()
    for s in structs:
        for f in s.fields:
            if f.enum is not None:
                enums[f.enum.name] = f.enum
            if f.kind == 'c':
                inners.add((f.inner_n, False))
    return enums, inners


def twin_decl(s: Struct):
    """plain struct with the same name (in a sibling module), declared field names in order and the
    getter types, #[derive(Debug)] — rustc's derive defines 'the standard struct format'."""
    lines = ["#[derive(Debug)]", f"pub struct {s.name} {{"]
    for f in s.fields:
        lines.append(f"    pub {f.name}: {getter_elem_ty(f)},")
    lines.append("}")
    return "\n".join(lines)


def adapter(s: Struct):
    n = s.n
    S = s.name
    out = []
    out.append(f"pub struct M_{S};")
    out.append(f"const _: fn() = || {{ fn is_copy<T: Copy>() {{}} is_copy::<{S}>(); }};")
    out.append(f"impl regmc::Machine for M_{S} {{")
    out.append(f"  fn name(&self) -> &'static str {{ \"{S}\" }}")
    out.append(f"  fn init(&self, x: u128) -> u128 {{ regmc::machine::to_bits(&{S}::new_with_raw_value({base_new(n, 'x')})) }}")
    out.append(f"  fn raw(&self, ob: u128) -> u128 {{ let o: {S} = regmc::machine::from_bits(ob, {S}::ZERO); {base_val(n, 'o.raw_value()')} }}")
    # get
    out.append(f"  fn get(&self, ob: u128, f: usize, idx: usize) -> u128 {{ let _ = idx; let o: {S} = regmc::machine::from_bits(ob, {S}::ZERO); match f {{")
    for i, f in enumerate(s.fields):
        if not f.readable:
            continue
        call = f"o.{f.name}(idx)" if f.arr else f"o.{f.name}()"
        out.append(f"    {i} => {from_val(f, call)},")
    out.append("    _ => panic!(\"harness: no getter\") } }")
    # with
    out.append(f"  fn with(&self, ob: u128, f: usize, idx: usize, v: u128) -> u128 {{ let _ = (idx, v); let o: {S} = regmc::machine::from_bits(ob, {S}::ZERO); let r: {S} = match f {{")
    for i, f in enumerate(s.fields):
        if not f.writable:
            continue
        tv = to_val(f, 'v')
        call = f"o.with_{sname(f)}(idx, {tv})" if f.arr else f"o.with_{sname(f)}({tv})"
        out.append(f"    {i} => {call},")
    out.append("    _ => panic!(\"harness: no with_\") }; if regmc::machine::to_bits(&o) != ob { panic!(\"harness: receiver changed by with_\") } regmc::machine::to_bits(&r) }")
    # set
    for probe in (False, True):
        if not probe:
            out.append(f"  fn set(&self, ob: u128, f: usize, idx: usize, v: u128) -> u128 {{ let _ = (idx, v); let mut o: {S} = regmc::machine::from_bits(ob, {S}::ZERO); match f {{")
        else:
            out.append(f"  fn set_probe(&self, ob: u128, f: usize, idx: usize, v: u128) -> (bool, u128) {{ let _ = (idx, v); let mut o: {S} = regmc::machine::from_bits(ob, {S}::ZERO); let r = std::panic::catch_unwind(std::panic::AssertUnwindSafe(|| match f {{")
        for i, f in enumerate(s.fields):
            if not f.writable:
                continue
            tv = to_val(f, 'v')
            call = f"o.set_{sname(f)}(idx, {tv})" if f.arr else f"o.set_{sname(f)}({tv})"
            out.append(f"    {i} => {call},")
        if not probe:
            out.append("    _ => panic!(\"harness: no set_\") }; regmc::machine::to_bits(&o) }")
        else:
            out.append("    _ => panic!(\"harness: no set_\") })); (r.is_err(), regmc::machine::to_bits(&o)) }")
    # consts
    if s.default is not None:
        out.append(f"  #[allow(deprecated)] fn consts(&self) -> (u128, Option<(u128, u128, u128)>) {{ (regmc::machine::to_bits(&{S}::ZERO), Some((regmc::machine::to_bits(&{S}::DEFAULT), regmc::machine::to_bits(&<{S} as Default>::default()), regmc::machine::to_bits(&{S}::new())))) }}")
    else:
        out.append(f"  fn consts(&self) -> (u128, Option<(u128, u128, u128)>) {{ (regmc::machine::to_bits(&{S}::ZERO), None) }}")
    out.append(f"  fn layout(&self) -> (usize, usize) {{ (std::mem::size_of::<{S}>(), std::mem::align_of::<{S}>()) }}")
    if s.has_builder:
        chain = []
        k = 0
        for f in s.fields:
            if not f.writable:
                continue
            if f.arr:
                elems = ", ".join(to_val(f, f"a[{k + j}]") for j in range(f.arr[0]))
                chain.append(f".with_{sname(f)}([{elems}])")
                k += f.arr[0]
            else:
                chain.append(f".with_{sname(f)}({to_val(f, f'a[{k}]')})")
                k += 1
        out.append(f"  fn build(&self, a: &[u128]) -> Option<u128> {{ let _ = a; Some(regmc::machine::to_bits(&{S}::builder(){''.join(chain)}.build())) }}")
    if s.ctab:
        statics, method = const_tables_code(s)
        out.insert(0, statics)
        out.append(method)
    if s.debug:
        out.append(f"  fn dbg(&self, ob: u128, alt: bool) -> Option<String> {{ let o: {S} = regmc::machine::from_bits(ob, {S}::ZERO); Some(if alt {{ format!(\"{{:#?}}\", o) }} else {{ format!(\"{{:?}}\", o) }}) }}")
        if s.twin:
            inits = []
            for i, f in enumerate(s.fields):
                inits.append(f"{f.name}: {twin_val(f, f'v[{i}]')}")
            out.append(f"  fn dbg_twin(&self, v: &[u128], alt: bool) -> Option<String> {{ let o = twin::{S} {{ {', '.join(inits)} }}; Some(if alt {{ format!(\"{{:#?}}\", o) }} else {{ format!(\"{{:?}}\", o) }}) }}")
    out.append("}")
    return "\n".join(out)


# ---- alphabets (same definitions as regmc::reference) --------------------------------------------
def alpha(n):
    m = mask(n)
    a = [0, m] + [1 << k for k in range(n)] + [m & ~(1 << k) for k in range(n)]
    a += [0xAAAAAAAAAAAAAAAAAAAAAAAAAAAAAAAA & m, 0x55555555555555555555555555555555 & m,
          0x0123456789ABCDEFFEDCBA9876543210 & m, 0xFEDCBA98765432100123456789ABCDEF & m]
    return list(dict.fromkeys(a))


def small_alpha(w):
    m = mask(w)
    a = [0, m, 0xAAAAAAAAAAAAAAAAAAAAAAAAAAAAAAAA & m, 0x55555555555555555555555555555555 & m, 1 & m, (1 << (w - 1)) & m,
         0x0123456789ABCDEFFEDCBA9876543210 & m]
    return list(dict.fromkeys(a))


def state_alpha(s: Struct):
    a = alpha(s.n)
    m = mask(s.n)
    for f in s.fields:
        cnt = f.arr[0] if f.arr else 1
        for idx in sorted({0, cnt - 1}):
            sh = idx * f.arr[1] if f.arr else 0
            cov = 0
            for lo, l in f.ranges:
                cov |= mask(l) << (lo + sh)
            a += [cov & m, ~cov & m]
    return list(dict.fromkeys(a))


def field_values(f: Field, full_w):
    if f.enum is not None:
        return list(f.enum.discs)
    if f.w <= full_w:
        return list(range(1 << f.w))
    return small_alpha(f.w)


def lit(xs):
    return "[" + ", ".join(hex(x) for x in xs) + "]"


def const_tables_code(s: Struct, full_n=8, full_w=4):
    """statics computed by the const evaluator from the generated const fns + the adapter method"""
    S = s.name
    n = s.n
    st = list(range(1 << n)) if n <= full_n else state_alpha(s)
    K = len(st)
    o = []
    rows = []
    o.append(f"const CT_{S}_ST: [u128; {K}] = {lit(st)};")
    NEW = f"{S}::new_with_raw_value({base_new(n, f'CT_{S}_ST[i]')})"
    o.append(f"static CT_{S}_RAW: [u128; {K}] = {{ let mut t = [0u128; {K}]; let mut i = 0; while i < {K} {{ t[i] = {base_val(n, NEW + '.raw_value()')}; i += 1; }} t }};")
    rows.append(f'regmc::ConstTable {{ kind: "raw", f: 0, idx: 0, states: &CT_{S}_ST, values: &[], table: &CT_{S}_RAW, args: &[] }}')
    o.append(f"static CT_{S}_ZERO: [u128; 1] = [{base_val(n, S + '::ZERO.raw_value()')}];")
    rows.append(f'regmc::ConstTable {{ kind: "zero", f: 0, idx: 0, states: &[], values: &[], table: &CT_{S}_ZERO, args: &[] }}')
    if s.default is not None:
        o.append(f"#[allow(deprecated)] static CT_{S}_DEF: [u128; 2] = [{base_val(n, S + '::DEFAULT.raw_value()')}, {base_val(n, S + '::new().raw_value()')}];")
        rows.append(f'regmc::ConstTable {{ kind: "default", f: 0, idx: 0, states: &[], values: &[], table: &CT_{S}_DEF, args: &[] }}')
    for fi, f in enumerate(s.fields):
        cnt = f.arr[0] if f.arr else 1
        idxs = sorted({0, cnt - 1, cnt // 2})
        for idx in idxs:
            ia = f"{idx}" if f.arr else ""
            ia2 = f"{idx}, " if f.arr else ""
            if f.readable:
                call = f"o.{f.name}({ia})"
                o.append(f"static CT_{S}_GET_{fi}_{idx}: [u128; {K}] = {{ let mut t = [0u128; {K}]; let mut i = 0; while i < {K} {{ let o = {NEW}; t[i] = {from_val(f, call)}; i += 1; }} t }};")
                rows.append(f'regmc::ConstTable {{ kind: "get", f: {fi}, idx: {idx}, states: &CT_{S}_ST, values: &[], table: &CT_{S}_GET_{fi}_{idx}, args: &[] }}')
            if f.writable:
                vals = field_values(f, full_w)
                if K * len(vals) > 16384:
                    vals = vals[:max(1, 16384 // K)]
                V = len(vals)
                if idx == idxs[0]:
                    o.append(f"const CT_{S}_V_{fi}: [u128; {V}] = {lit(vals)};")
                tv = to_val(f, f"CT_{S}_V_{fi}[j]")
                o.append(f"static CT_{S}_WITH_{fi}_{idx}: [u128; {K * V}] = {{ let mut t = [0u128; {K * V}]; let mut i = 0; while i < {K} {{ let o = {NEW}; let mut j = 0; "
                         f"while j < {V} {{ t[i * {V} + j] = {base_val(n, f'o.with_{sname(f)}({ia2}{tv}).raw_value()')}; j += 1; }} i += 1; }} t }};")
                rows.append(f'regmc::ConstTable {{ kind: "with", f: {fi}, idx: {idx}, states: &CT_{S}_ST, values: &CT_{S}_V_{fi}, table: &CT_{S}_WITH_{fi}_{idx}, args: &[] }}')
    if s.has_builder:
        slots = []
        for f in s.fields:
            if f.writable:
                for _ in range(f.arr[0] if f.arr else 1):
                    slots.append(field_values(f, 2) if f.enum is None else list(f.enum.discs))
        A = len(slots)
        tuples = []
        mx = max([len(v) for v in slots] + [1])
        for j in range(mx):
            tuples.append([v[(j + i) % len(v)] for i, v in enumerate(slots)])
            tuples.append([v[j % len(v)] for v in slots])
        tuples = [list(t) for t in dict.fromkeys(tuple(t) for t in tuples)]
        Rn = len(tuples)
        if A > 0:
            o.append(f"const CT_{S}_ARGS: [[u128; {A}]; {Rn}] = [" + ", ".join(lit(t) for t in tuples) + "];")
        chain, k = [], 0
        for f in s.fields:
            if not f.writable:
                continue
            if f.arr:
                elems = ", ".join(to_val(f, f"CT_{S}_ARGS[i][{k + j}]") for j in range(f.arr[0]))
                chain.append(f".with_{sname(f)}([{elems}])")
                k += f.arr[0]
            else:
                chain.append(f".with_{sname(f)}({to_val(f, f'CT_{S}_ARGS[i][{k}]')})")
                k += 1
        built = base_val(n, f"{S}::builder(){''.join(chain)}.build().raw_value()")
        o.append(f"static CT_{S}_BUILD: [u128; {Rn}] = {{ let mut t = [0u128; {Rn}]; let mut i = 0; while i < {Rn} {{ t[i] = {built}; i += 1; }} t }};")
        args = "&[" + ", ".join(f"&{lit(t)}" for t in tuples) + "]"
        rows.append(f'regmc::ConstTable {{ kind: "build", f: 0, idx: 0, states: &[], values: &[], table: &CT_{S}_BUILD, args: {args} }}')
    method = "  fn const_tables(&self) -> Vec<regmc::ConstTable> { vec![\n    " + ",\n    ".join(rows) + "\n  ] }"
    return "\n".join(o), method


def enum_const_tables_code(ed, full_n=8):
    E, n = ed.name, ed.n
    if n <= full_n:
        xs = list(range(1 << n))
    else:
        m = mask(n)
        xs = alpha(n)
        for d in ed.discs:
            xs += [d, (d + 1) & m, (d - 1) & m]
        xs = list(dict.fromkeys(xs))
    K = len(xs)
    idx = " ".join(f"{E}::V{d:x} => {i}u128," for i, d in enumerate(ed.discs))
    if ed.exhaustive != 'true':
        enc = f"match r {{ Ok(e) => (match e {{ {idx} }}), Err(y) => regmc::ERR_FLAG | (y as u128) }}"
    else:
        enc = f"match r {{ {idx} }}"
    V = len(ed.discs)
    o = [f"const CT_{E}_X: [u128; {K}] = {lit(xs)};",
         f"static CT_{E}_FROM: [u128; {K}] = {{ let mut t = [0u128; {K}]; let mut i = 0; while i < {K} {{ let r = {E}::new_with_raw_value({base_new(n, f'CT_{E}_X[i]')}); t[i] = {enc}; i += 1; }} t }};",
         f"const CT_{E}_I: [u128; {V}] = {lit(list(range(V)))};",
         f"static CT_{E}_TO: [u128; {V}] = [" + ", ".join(base_val(n, f"{E}::V{d:x}.raw_value()") for d in ed.discs) + "];"]
    method = (f"  fn const_tables(&self) -> Vec<regmc::ConstTable> {{ vec![\n"
              f'    regmc::ConstTable {{ kind: "enum_from", f: 0, idx: 0, states: &CT_{E}_X, values: &[], table: &CT_{E}_FROM, args: &[] }},\n'
              f'    regmc::ConstTable {{ kind: "enum_to", f: 0, idx: 0, states: &CT_{E}_I, values: &[], table: &CT_{E}_TO, args: &[] }},\n  ] }}')
    return "\n".join(o), method


def twin_val(f: Field, e):
    """value of the getter type from an observation (ERR_FLAG convention for Option<enum>)"""
    if f.kind == 'o':
        return (f"(if {e} & regmc::ERR_FLAG != 0 {{ Err(({e} & !regmc::ERR_FLAG) as {prim(f.w)}) }} "
                f"else {{ Ok({enum_from_disc(f.enum, e)}) }})")
    return to_val(f, e)


def field_to_py(f: Field):
    d = dict(f.__dict__)
    d["ranges"] = [list(r) for r in f.ranges]
    d["arr"] = list(f.arr) if f.arr else None
    if f.enum is not None:
        e = f.enum
        d["enum"] = {"n": e.n, "exhaustive": e.exhaustive, "discs": [hex(x) for x in e.discs], "dead": [hex(x) for x in e.dead],
                     "spell": e.spell, "omit_exh": e.omit_exh, "dead_first": e.dead_first, "alias": e.alias, "exh_first": e.exh_first}
    return d


def field_from_py(d):
    d = dict(d)
    d["ranges"] = [tuple(r) for r in d["ranges"]]
    d["arr"] = tuple(d["arr"]) if d.get("arr") else None
    if d.get("enum"):
        e = d["enum"]
        d["enum"] = EnumDef(e["n"], e["exhaustive"], tuple(int(x, 16) for x in e["discs"]), tuple(int(x, 16) for x in e["dead"]),
                            e["spell"], e["omit_exh"], dead_first=e.get("dead_first", False), alias=e.get("alias", ""), exh_first=e.get("exh_first", False))
    return Field(**d)


def struct_from_spec(ms):
    """rebuild a Struct from a MachineSpec dict (replay)"""
    fs = [field_from_py(f["py"]) for f in ms["fields"]]
    for f, fd in zip(fs, ms["fields"]):
        f.name = fd["name"]
    py = ms.get("py") or {}
    return Struct(ms["n"], fs, default=int(ms["default"], 16) if ms.get("default") else None,
                  default_form=py.get("default_form", "lit"), default_sep=py.get("default_sep", "="),
                  debug=ms.get("debug", False), family=ms.get("family", ""), name=ms["name"],
                  has_builder=ms.get("has_builder", False), passes=[tuple(p) for p in ms.get("passes", [])],
                  twin=py.get("twin", False), debug_first=py.get("debug_first", False), derives=py.get("derives", ""), vis=py.get("vis", "pub"),
                  keep_names=True)


def spec_field(f: Field, i):
    return {
        "name": f.name,
        "ranges": [[lo, l] for lo, l in f.ranges],
        "arr": list(f.arr) if f.arr else None,
        "kind": f.kind,
        "w": f.w,
        "readable": f.readable,
        "writable": f.writable,
        "discs": [hex(d) for d in f.enum.discs] if f.enum else None,
        "family": f.family,
        "text": field_text(f, i),
        "py": field_to_py(f),
    }


def spec_struct(s: Struct):
    return {
        "name": s.name,
        "n": s.n,
        "fields": [spec_field(f, i) for i, f in enumerate(s.fields)],
        "default": hex(s.default) if s.default is not None else None,
        "has_builder": s.has_builder,
        "debug": s.debug,
        "family": s.family,
        "passes": [list(p) for p in s.passes],
        "head": head_text(s, f"DV_{s.name.upper()}"),
        "py": {"default_form": s.default_form, "default_sep": s.default_sep, "twin": s.twin, "debug_first": getattr(s, "debug_first", False),
               "derives": getattr(s, "derives", ""), "vis": getattr(s, "vis", "pub"), "keep_names": getattr(s, "keep_names", False)},
    }


SHARD_PRELUDE = """#![allow(long_running_const_eval)]
#![allow(dead_code, unused_imports, unused_parens, unused_variables, unused_mut, non_camel_case_types, non_upper_case_globals, unreachable_patterns, unreachable_code, clippy::all)]
use arbitrary_int::*;
use bitbybit::{bitenum, bitfield};
"""


def enum_adapter(ed: EnumDef, ctab=False):
    E = ed.name
    statics, ctm = enum_const_tables_code(ed) if ctab else ("", "")
    n = ed.n
    idx = " ".join(f"{E}::V{d:x} => {i}u128," for i, d in enumerate(ed.discs))
    res = ed.exhaustive != 'true'
    if res:
        enc = f"match r {{ Ok(e) => (match e {{ {idx} }}), Err(y) => regmc::ERR_FLAG | (y as u128) }}"
    else:
        enc = f"match r {{ {idx} }}"
    arms = " ".join(f"{i} => {base_val(n, f'{E}::V{d:x}.raw_value()')}," for i, d in enumerate(ed.discs))
    first = f"{E}::V{ed.discs[0]:x}"
    return f"""{statics}
pub struct EM_{E};
impl regmc::EnumMachine for EM_{E} {{
{ctm}
  fn name(&self) -> &'static str {{ "{E}" }}
  fn from_raw(&self, x: u128) -> u128 {{ let r = {E}::new_with_raw_value({base_new(n, 'x')}); {enc} }}
  fn to_raw(&self, i: usize) -> u128 {{ match i {{ {arms} _ => panic!("harness: no such variant") }} }}
  fn raw_size(&self) -> usize {{ std::mem::size_of_val(&{first}.raw_value()) }}
  fn returns_result(&self) -> bool {{ {'true' if res else 'false'} }}
}}
const _: fn() = || {{ fn is_copy<T: Copy>() {{}} is_copy::<{E}>(); }};"""


def enum_spec(ed: EnumDef):
    return {"name": ed.name, "n": ed.n, "exhaustive": ed.exhaustive, "discs": [hex(d) for d in ed.discs],
            "text": enum_decl(ed).replace("\n", " ").replace("    ", " ")}


def enum_shard_source(eds, ctab=False):
    out = [SHARD_PRELUDE]
    for ed in eds:
        out.append(enum_decl(ed, derive_debug=True))
        out.append(enum_adapter(ed, ctab=ctab))
    out.append("pub fn machines() -> Vec<Box<dyn regmc::Machine>> { vec![] }")
    out.append("pub fn enums() -> Vec<Box<dyn regmc::EnumMachine>> { vec![")
    for ed in eds:
        out.append(f"  Box::new(EM_{ed.name}),")
    out.append("] }")
    return "\n".join(out) + "\n"


def shard_source(structs, enums_extra=(), enum_adapters="", spans=None):
    """spans (optional list) receives (first_line, last_line, struct_name) for the lines owned by each struct"""
    enums, inners = required_types(structs)
    for e in enums_extra:
        enums[e.name] = e
    out = [SHARD_PRELUDE.rstrip("\n")]
    for name in sorted(enums):
        out.append(enum_decl(enums[name], derive_debug=True))
        out.append(f"pub type A{name} = {name};")
    for n, _ in sorted(inners):
        out.append(inner_decl(n, debug=True))
        out.append(f"pub type A{inner_name(n)} = {inner_name(n)};")
    twins = []
    line = sum(x.count("\n") + 1 for x in out)
    for s in structs:
        chunk = struct_decl(s) + "\n" + adapter(s)
        nl = chunk.count("\n") + 1
        if spans is not None:
            spans.append((line + 1, line + nl, s.name))
        line += nl
        out.append(chunk)
        if s.debug and s.twin:
            twins.append(twin_decl(s))
    if twins:
        out.append("pub mod twin {\n use super::*;\n" + "\n".join(twins) + "\n}")
    out.append("pub fn machines() -> Vec<Box<dyn regmc::Machine>> { vec![")
    for s in structs:
        out.append(f"  Box::new(M_{s.name}),")
    out.append("] }")
    out.append(enum_adapters if enum_adapters else "pub fn enums() -> Vec<Box<dyn regmc::EnumMachine>> { vec![] }")
    return "\n".join(out) + "\n"
