//! Frontier-free exhaustive sweeper: every state x every field x every element x every value,
//! real generated accessor vs REG, on every transition.

use crate::machine::Machine;
use crate::reference::*;
use crate::report::*;
use crate::spec::*;
use std::collections::{BTreeMap, HashSet};
use std::panic::{catch_unwind, AssertUnwindSafe};
use std::sync::atomic::{AtomicBool, AtomicUsize, Ordering};
use std::sync::Mutex;
use std::time::Instant;

#[derive(Clone, Debug)]
pub struct SweepCfg {
    /// "get" (C01-style: getters only), "put" (with/set + read-back), "all"
    pub ops: String,
    /// bases up to this width get FULL(N) states when the machine's pass says "full"
    pub full_n: u32,
    /// fields up to this width get all 2^w values when the pass says "full"
    pub full_w: u32,
    /// probe out-of-range indices on arrays
    pub oob: bool,
    pub wall_cap_s: f64,
    pub threads: usize,
    /// only fields whose family is in this list (empty = all)
    pub families: Vec<String>,
    /// only fields whose kind is in this string (empty = all)
    pub kinds: String,
    /// C11: an object whose storage differs from its re-wrap (state above bit N-1) is a violation
    pub strict_storage: bool,
    /// C16 on declarations whose values no property determines (range lists naming a bit twice): no value oracle, only
    /// panics, set_ vs with_ agreement and the observation digest
    pub panic_only: bool,
}

pub enum StateSet {
    Range(u128),
    List(Vec<u128>),
}
impl StateSet {
    pub fn len(&self) -> u128 {
        match self {
            StateSet::Range(n) => *n,
            StateSet::List(v) => v.len() as u128,
        }
    }
    pub fn get(&self, i: u128) -> u128 {
        match self {
            StateSet::Range(_) => i,
            StateSet::List(v) => v[i as usize],
        }
    }
}

#[derive(Default)]
struct ItemResult {
    transitions: u64,
    compared: u64,
    states: u64,
    distinct: u64,
    digest: u64,
    vcount: u64,
    violations: Vec<Violation>,
    hidden_bits: u64,
    sample: Option<serde_json::Value>,
    done: bool,
    gave_up: bool,
}

#[inline]
fn mix(h: &mut u64, x: u128) {
    *h = (*h ^ (x as u64)).wrapping_mul(0x100000001b3);
    *h = (*h ^ ((x >> 64) as u64)).wrapping_mul(0x100000001b3);
}

const PANICKED: u128 = u128::MAX - 0xdead;

fn call<F: FnOnce() -> u128>(f: F) -> Result<u128, ()> {
    catch_unwind(AssertUnwindSafe(f)).map_err(|_| ())
}

pub fn state_sets(ms: &MachineSpec, which: &str, cfg: &SweepCfg) -> StateSet {
    match which {
        "full" if ms.n <= cfg.full_n => StateSet::Range(1u128 << ms.n),
        "core4" => StateSet::List(core4(ms.n)),
        _ => StateSet::List(state_alpha(ms.n, &ms.fields)),
    }
}

pub fn value_sets(f: &FieldSpec, which: &str, cfg: &SweepCfg) -> Vec<u128> {
    match which {
        "full" => value_alpha(f, cfg.full_w),
        "core4" => {
            if f.discs.is_some() && (f.kind == "e" || f.kind == "o") {
                value_alpha(f, 0)
            } else {
                core4(f.w)
            }
        }
        "core2" => {
            if f.discs.is_some() && (f.kind == "e" || f.kind == "o") {
                value_alpha(f, 0)
            } else {
                dedup_keep_order(vec![0, mask(f.w)])
            }
        }
        _ => value_alpha(f, 0),
    }
}

struct Ctx<'a> {
    m: &'a dyn Machine,
    ms: &'a MachineSpec,
    fi: usize,
    f: &'a FieldSpec,
    do_get: bool,
    do_put: bool,
    strict_storage: bool,
    panic_only: bool,
}

/// One (idx, state) batch, executed without any catch_unwind inside. Returns mismatches as
/// (what, step list, expected, observed).
#[allow(clippy::too_many_arguments)]
fn batch(
    c: &Ctx,
    idx: usize,
    seg: &Seg,
    s: u128,
    vals: &[u128],
    r: &mut ItemResult,
    seen: &mut HashSet<u128>,
    out: &mut Vec<(String, Vec<Step>, u128, u128)>,
) {
    let (m, fi, f) = (c.m, c.fi, c.f);
    let o = m.init(s);
    r.transitions += 1;
    let mut h = r.digest;
    if c.do_get && f.readable {
        let g = m.get(o, fi, idx);
        r.transitions += 1;
        let e = encode_get(f, seg.get(s));
        r.compared += 1;
        mix(&mut h, g);
        if seen.len() < 4096 {
            seen.insert(g);
        }
        if g != e {
            out.push(("get".into(), vec![Step::init(s), Step::op("get", fi, idx, 0)], e, g));
        }
    }
    if c.do_put && f.writable {
        for &v in vals {
            let e = seg.put(s, v);
            let o1 = m.with(o, fi, idx, v);
            let r1 = m.raw(o1);
            r.transitions += 2;
            r.compared += 1;
            mix(&mut h, r1);
            if r1 != e {
                out.push((
                    "frame".into(),
                    vec![Step::init(s), Step::op("with", fi, idx, v), Step::op("raw", 0, 0, 0)],
                    e,
                    r1,
                ));
            }
            if o1 != e {
                r.hidden_bits += 1;
                if c.strict_storage {
                    // storage differs from the reference register: is the object distinguishable from its re-wrap?
                    let re = m.init(m.raw(o1));
                    r.transitions += 2;
                    r.compared += 1;
                    if re != o1 {
                        out.push((
                            "hidden_storage".into(),
                            vec![Step::init(s), Step::op("with", fi, idx, v), Step::op("storage_eq_rewrap", 0, 0, 0)],
                            1,
                            0,
                        ));
                    }
                }
            }
            if f.readable {
                let g1 = m.get(o1, fi, idx);
                r.transitions += 1;
                r.compared += 1;
                let ev = encode_get(f, v);
                if g1 != ev {
                    out.push((
                        "readback".into(),
                        vec![Step::init(s), Step::op("with", fi, idx, v), Step::op("get", fi, idx, 0)],
                        ev,
                        g1,
                    ));
                }
            }
            let o2 = m.set(o, fi, idx, v);
            let r2 = m.raw(o2);
            r.transitions += 2;
            r.compared += 1;
            mix(&mut h, r2);
            if r2 != e {
                out.push((
                    "set_frame".into(),
                    vec![Step::init(s), Step::op("set", fi, idx, v), Step::op("raw", 0, 0, 0)],
                    e,
                    r2,
                ));
            }
            if o2 != e && c.strict_storage {
                let re = m.init(m.raw(o2));
                r.transitions += 2;
                r.compared += 1;
                if re != o2 {
                    out.push((
                        "hidden_storage".into(),
                        vec![Step::init(s), Step::op("set", fi, idx, v), Step::op("storage_eq_rewrap", 0, 0, 0)],
                        1,
                        0,
                    ));
                }
            }
            if o2 != o1 {
                // storage differs between set_ and with_: decide observationally through every getter
                for (gi, gf) in c.ms.fields.iter().enumerate() {
                    if !gf.readable {
                        continue;
                    }
                    for gidx in 0..gf.arr.map_or(1, |a| a.0) {
                        let a = m.get(o1, gi, gidx);
                        let b = m.get(o2, gi, gidx);
                        r.transitions += 2;
                        r.compared += 1;
                        if a != b {
                            out.push((
                                "set_vs_with".into(),
                                vec![Step::init(s), Step::op("set", fi, idx, v), Step::op("get", gi, gidx, 0)],
                                a,
                                b,
                            ));
                        }
                    }
                }
            }
        }
    }
    r.digest = h;
    if c.panic_only {
        // no value oracle inside the field; but the set of bits the element names is determined, and every bit outside it must survive
        let fm = seg.field_mask();
        let keep: Vec<_> = out
            .drain(..)
            .filter_map(|x| match x.0.as_str() {
                "set_vs_with" | "hidden_storage" => Some(x),
                "frame" | "set_frame" => {
                    if (x.3 & !fm) != (s & !fm) {
                        Some((format!("{}_outside", x.0), x.1, s & !fm, x.3 & !fm))
                    } else {
                        None
                    }
                }
                _ => None,
            })
            .collect();
        *out = keep;
    }
}

/// Re-run a batch step by step to find which call panics.
fn locate_panic(c: &Ctx, idx: usize, s: u128, vals: &[u128]) -> Vec<Step> {
    let (m, fi, f) = (c.m, c.fi, c.f);
    let o = match call(|| m.init(s)) {
        Ok(o) => o,
        Err(_) => return vec![Step::init(s)],
    };
    if c.do_get && f.readable && call(|| m.get(o, fi, idx)).is_err() {
        return vec![Step::init(s), Step::op("get", fi, idx, 0)];
    }
    if c.do_put && f.writable {
        for &v in vals {
            match call(|| m.with(o, fi, idx, v)) {
                Err(_) => return vec![Step::init(s), Step::op("with", fi, idx, v)],
                Ok(o1) => {
                    if call(|| m.raw(o1)).is_err() {
                        return vec![Step::init(s), Step::op("with", fi, idx, v), Step::op("raw", 0, 0, 0)];
                    }
                    if f.readable && call(|| m.get(o1, fi, idx)).is_err() {
                        return vec![Step::init(s), Step::op("with", fi, idx, v), Step::op("get", fi, idx, 0)];
                    }
                }
            }
            match call(|| m.set(o, fi, idx, v)) {
                Err(_) => return vec![Step::init(s), Step::op("set", fi, idx, v)],
                Ok(o2) => {
                    if call(|| m.raw(o2)).is_err() {
                        return vec![Step::init(s), Step::op("set", fi, idx, v), Step::op("raw", 0, 0, 0)];
                    }
                }
            }
        }
    }
    vec![Step::init(s)]
}

pub fn oob_indices(k: usize, stride: usize, storage_w: u32) -> Vec<usize> {
    let mut v = vec![k, k + 1, 2 * k, storage_w as usize, (usize::MAX / stride.max(1)).saturating_add(1), usize::MAX];
    v.retain(|&i| i >= k);
    v.dedup();
    v
}

fn sweep_item(c: &Ctx, cfg: &SweepCfg, start: &Instant, stop: &AtomicBool) -> ItemResult {
    let mut r = ItemResult { digest: 0xcbf29ce484222325, ..Default::default() };
    let (ms, f, fi) = (c.ms, c.f, c.fi);
    let cnt = f.arr.map_or(1, |a| a.0);
    let mut seen: HashSet<u128> = HashSet::new();
    let passes: Vec<(String, String)> =
        if ms.passes.is_empty() { vec![("alpha".into(), "alpha".into())] } else { ms.passes.clone() };
    let mut mism: Vec<(String, Vec<Step>, u128, u128)> = Vec::new();
    for (pi, (sset, vset)) in passes.iter().enumerate() {
        let states = state_sets(ms, sset, cfg);
        let vals = value_sets(f, vset, cfg);
        for idx in 0..cnt {
            let pos = positions(f, idx);
            let seg = Seg::new(f, idx);
            // start-up self check of the fast path against the bit-at-a-time reference (not for panic-only runs: the reference
            // value of a list that names a bit twice is not defined and is not used there)
            if !cfg.panic_only {
                let a = alpha(ms.n);
                let av = alpha(f.w);
                if let Err(e) = seg.self_check(&pos, &a, &av) {
                    panic!("machinery: {e} for {} field {}", ms.name, f.name);
                }
            }
            let n_states = states.len();
            let mut i = 0u128;
            while i < n_states {
                if (i & 0xfff) == 0 && (stop.load(Ordering::Relaxed) || start.elapsed().as_secs_f64() > cfg.wall_cap_s) {
                    stop.store(true, Ordering::Relaxed);
                    return r;
                }
                let s = states.get(i);
                i += 1;
                mism.clear();
                let before = (r.transitions, r.compared, r.digest);
                let res = catch_unwind(AssertUnwindSafe(|| {
                    batch(c, idx, &seg, s, &vals, &mut r, &mut seen, &mut mism);
                }));
                if pi == 0 && idx == 0 {
                    r.states += 1;
                }
                if res.is_err() {
                    r.transitions = before.0;
                    r.compared = before.1;
                    r.digest = before.2;
                    mix(&mut r.digest, PANICKED);
                    let trace = locate_panic(c, idx, s, &vals);
                    r.transitions += trace.len() as u64;
                    r.vcount += 1;
                    if r.violations.len() < 3 {
                        r.violations.push(Violation::new(
                            "panic",
                            ms,
                            Some(f),
                            trace,
                            Expect { kind: "nopanic".into(), value: H(0), text: String::new() },
                            "Panicked".into(),
                        ));
                    }
                    continue;
                }
                for (what, trace, e, g) in mism.drain(..) {
                    r.vcount += 1;
                    if r.violations.len() < 3 {
                        r.violations.push(Violation::new(&what, ms, Some(f), trace, expect_value(e), format!("{g:#x}")));
                    }
                }
                if r.vcount >= 64 {
                    // the verdict for this (machine, field) is settled; do not spend the budget enumerating more of the same
                    r.gave_up = true;
                    r.distinct = seen.len() as u64;
                    return r;
                }
                if r.sample.is_none() && c.do_put && f.writable && !vals.is_empty() && i > n_states / 2 {
                    let v = vals[vals.len() / 2];
                    r.sample = Some(serde_json::json!({
                        "decl": format!("{} {{ {} }}", ms.head, f.text),
                        "trace": format!("init({:#x}); with_{}[{}]({:#x}); raw_value()", s, f.name, idx, v),
                        "expected_and_observed": format!("{:#x}", seg.put(s, v)),
                    }));
                } else if r.sample.is_none() && c.do_get && f.readable && i > n_states / 2 {
                    r.sample = Some(serde_json::json!({
                        "decl": format!("{} {{ {} }}", ms.head, f.text),
                        "trace": format!("init({:#x}); {}[{}]()", s, f.name, idx),
                        "expected_and_observed": format!("{:#x}", encode_get(f, seg.get(s))),
                    }));
                }
            }
        }
    }
    // out-of-range index probes
    if cfg.oob {
        if let Some((k, stride)) = f.arr {
            let probe_states = core4(ms.n);
            let vals = value_sets(f, "core4", cfg);
            let m = c.m;
            for &bad in &oob_indices(k, stride, storage(ms.n)) {
                for &s in &probe_states {
                    let o = m.init(s);
                    r.transitions += 1;
                    if f.readable {
                        r.transitions += 1;
                        r.compared += 1;
                        let g = call(|| m.get(o, fi, bad));
                        mix(&mut r.digest, g.unwrap_or(PANICKED));
                        if let Ok(g) = g {
                            r.vcount += 1;
                            if r.violations.len() < 3 {
                                r.violations.push(Violation::new(
                                    "oob_nopanic",
                                    ms,
                                    Some(f),
                                    vec![Step::init(s), Step::op("get", fi, bad, 0)],
                                    expect_panic(),
                                    format!("{g:#x}"),
                                ));
                            }
                        }
                    }
                    if f.writable {
                        for &v in &vals {
                            r.transitions += 2;
                            r.compared += 3;
                            let w = call(|| m.with(o, fi, bad, v));
                            mix(&mut r.digest, w.unwrap_or(PANICKED));
                            if let Ok(w) = w {
                                r.vcount += 1;
                                if r.violations.len() < 3 {
                                    r.violations.push(Violation::new(
                                        "oob_nopanic",
                                        ms,
                                        Some(f),
                                        vec![Step::init(s), Step::op("with", fi, bad, v)],
                                        expect_panic(),
                                        format!("{w:#x}"),
                                    ));
                                }
                            }
                            let (panicked, after) = m.set_probe(o, fi, bad, v);
                            mix(&mut r.digest, if panicked { PANICKED } else { after });
                            if !panicked {
                                r.vcount += 1;
                                if r.violations.len() < 3 {
                                    r.violations.push(Violation::new(
                                        "oob_nopanic",
                                        ms,
                                        Some(f),
                                        vec![Step::init(s), Step::op("set_probe", fi, bad, v)],
                                        expect_panic(),
                                        format!("{after:#x}"),
                                    ));
                                }
                            } else if after != o {
                                r.vcount += 1;
                                if r.violations.len() < 3 {
                                    r.violations.push(Violation::new(
                                        "oob_receiver",
                                        ms,
                                        Some(f),
                                        vec![Step::init(s), Step::op("set_probe", fi, bad, v)],
                                        expect_value(o),
                                        format!("{after:#x}"),
                                    ));
                                }
                            }
                        }
                    }
                }
            }
        }
    }
    r.distinct = seen.len() as u64;
    r.done = true;
    r
}

pub fn sweep(machines: &[(&dyn Machine, &MachineSpec)], cfg: &SweepCfg) -> Report {
    let start = Instant::now();
    let mut items: Vec<(usize, usize)> = Vec::new();
    for (mi, (_, ms)) in machines.iter().enumerate() {
        for (fi, f) in ms.fields.iter().enumerate() {
            if !cfg.families.is_empty() && !cfg.families.iter().any(|x| *x == f.family) {
                continue;
            }
            if !cfg.kinds.is_empty() && !cfg.kinds.contains(f.kind.as_str()) {
                continue;
            }
            items.push((mi, fi));
        }
    }
    let results: Vec<Mutex<Option<ItemResult>>> = items.iter().map(|_| Mutex::new(None)).collect();
    let next = AtomicUsize::new(0);
    let stop = AtomicBool::new(false);
    let do_get = cfg.ops == "get" || cfg.ops == "all";
    let do_put = cfg.ops == "put" || cfg.ops == "all";
    std::thread::scope(|sc| {
        for _ in 0..cfg.threads.max(1) {
            sc.spawn(|| loop {
                let i = next.fetch_add(1, Ordering::Relaxed);
                if i >= items.len() || stop.load(Ordering::Relaxed) {
                    break;
                }
                let (mi, fi) = items[i];
                let (m, ms) = machines[mi];
                let c = Ctx { m, ms, fi, f: &ms.fields[fi], do_get, do_put, strict_storage: cfg.strict_storage, panic_only: cfg.panic_only };
                let r = sweep_item(&c, cfg, &start, &stop);
                *results[i].lock().unwrap() = Some(r);
            });
        }
    });
    let mut rep = Report { mode: format!("sweep:{}", cfg.ops), exhaustive: true, ..Default::default() };
    let mut mach_seen = HashSet::new();
    let mut per_machine_digest: BTreeMap<String, u64> = BTreeMap::new();
    let mut hidden = 0u64;
    let mut done_items = 0u64;
    for (i, slot) in results.iter().enumerate() {
        let (mi, fi) = items[i];
        let ms = machines[mi].1;
        let f = &ms.fields[fi];
        let r = slot.lock().unwrap().take();
        let Some(r) = r else {
            rep.exhaustive = false;
            continue;
        };
        if r.gave_up {
            rep.notes.push(format!("{} field {}: stopped after {} violations", ms.name, f.name, r.vcount));
        }
        if !r.done {
            rep.exhaustive = false;
        } else {
            done_items += 1;
        }
        if mach_seen.insert(mi) {
            rep.machines += 1;
        }
        rep.fields += 1;
        rep.states += r.states;
        rep.transitions += r.transitions;
        rep.compared += r.compared;
        rep.distinct_outcomes += r.distinct;
        rep.violation_count += r.vcount;
        hidden += r.hidden_bits;
        let fam = rep.per_family.entry(f.family.clone()).or_default();
        fam.fields += 1;
        fam.transitions += r.transitions;
        fam.states += r.states;
        fam.violations += r.vcount;
        let d = per_machine_digest.entry(ms.name.clone()).or_insert(0xcbf29ce484222325);
        *d = (*d ^ r.digest).wrapping_mul(0x100000001b3);
        for v in r.violations {
            if rep.violations.len() < 40 {
                rep.violations.push(v);
            }
        }
        if let Some(s) = r.sample {
            if rep.samples.len() < 6 && (i % (items.len() / 6 + 1) == 0) {
                rep.samples.push(s);
            }
        }
    }
    if !rep.exhaustive {
        rep.caps_hit.push(format!(
            "wall cap {} s hit: {} of {} (machine, field) items completed",
            cfg.wall_cap_s,
            done_items,
            items.len()
        ));
    }
    for (k, v) in per_machine_digest {
        rep.digests.insert(k, format!("{v:016x}"));
    }
    rep.extra.insert("storage_bits_above_reference".into(), serde_json::json!(hidden));
    rep.extra.insert("items".into(), serde_json::json!(items.len()));
    rep.wall_s = start.elapsed().as_secs_f64();
    rep
}
