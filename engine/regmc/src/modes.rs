//! Smaller modes: consts (C06), replay.

use crate::machine::Machine;
use crate::reference::*;
use crate::report::*;
use crate::spec::*;
use std::panic::{catch_unwind, AssertUnwindSafe};
use std::time::Instant;

fn call<T, F: FnOnce() -> T>(f: F) -> Result<T, ()> {
    catch_unwind(AssertUnwindSafe(f)).map_err(|_| ())
}

/// C06: raw round trip over FULL(N)/A(N), ZERO / DEFAULT / Default / new(), size and alignment.
pub fn consts(machines: &[(&dyn Machine, &MachineSpec)], full_n: u32, threads: usize) -> Report {
    let start = Instant::now();
    let mut rep = Report { mode: "consts".into(), exhaustive: true, ..Default::default() };
    let chunk = machines.len().div_ceil(threads.max(1)).max(1);
    let parts: Vec<Report> = std::thread::scope(|sc| {
        let hs: Vec<_> = machines
            .chunks(chunk)
            .map(|ch| {
                sc.spawn(move || {
                    let mut rep = Report::default();
                    for &(m, ms) in ch {
                        consts_one(m, ms, full_n, &mut rep);
                    }
                    rep
                })
            })
            .collect();
        hs.into_iter().map(|h| h.join().unwrap()).collect()
    });
    for p in parts {
        rep.machines += p.machines;
        rep.states += p.states;
        rep.transitions += p.transitions;
        rep.compared += p.compared;
        rep.distinct_outcomes += p.distinct_outcomes;
        rep.violation_count += p.violation_count;
        for v in p.violations {
            if rep.violations.len() < 40 {
                rep.violations.push(v);
            }
        }
        for s in p.samples {
            if rep.samples.len() < 6 {
                rep.samples.push(s);
            }
        }
        for (k, v) in p.per_family {
            let e = rep.per_family.entry(k).or_default();
            e.fields += v.fields;
            e.transitions += v.transitions;
            e.states += v.states;
            e.violations += v.violations;
        }
    }
    rep.wall_s = start.elapsed().as_secs_f64();
    rep
}

fn consts_one(m: &dyn Machine, ms: &MachineSpec, full_n: u32, rep: &mut Report) {
    rep.machines += 1;
    let viol = |rep: &mut Report, what: &str, trace: Vec<Step>, e: Expect, obs: String| {
        rep.violation_count += 1;
        rep.per_family.entry(ms.family.clone()).or_default().violations += 1;
        if rep.violations.len() < 40 {
            rep.violations.push(Violation::new(what, ms, None, trace, e, obs));
        }
    };
    let t0 = rep.transitions;
    // layout
    let st = storage(ms.n) as usize / 8;
    match call(|| m.layout()) {
        Ok((size, align)) => {
            rep.transitions += 1;
            rep.compared += 2;
            if size != st {
                viol(rep, "size", vec![Step::op("layout", 0, 0, 0)], expect_value(st as u128), format!("{size}"));
            }
            if align != st.min(std::mem::align_of::<u128>()).max(1) && align != native_align(st) {
                viol(rep, "align", vec![Step::op("layout", 1, 0, 0)], expect_value(native_align(st) as u128), format!("{align}"));
            }
        }
        Err(_) => viol(rep, "panic", vec![Step::op("layout", 0, 0, 0)], expect_value(st as u128), "Panicked".into()),
    }
    // constants
    match call(|| m.consts()) {
        Ok((zero, dflt)) => {
            rep.transitions += 1;
            rep.compared += 1;
            match call(|| m.raw(zero)) {
                Ok(0) => {}
                Ok(x) => viol(rep, "zero", vec![Step::op("zero", 0, 0, 0), Step::op("raw", 0, 0, 0)], expect_value(0), format!("{x:#x}")),
                Err(_) => viol(rep, "panic", vec![Step::op("zero", 0, 0, 0), Step::op("raw", 0, 0, 0)], expect_value(0), "Panicked".into()),
            }
            match (&ms.default, dflt) {
                (Some(H(d)), Some((a, b, c))) => {
                    for (i, o) in [a, b, c].into_iter().enumerate() {
                        rep.transitions += 1;
                        rep.compared += 1;
                        let name = ["DEFAULT", "Default::default()", "new()"][i];
                        match call(|| m.raw(o)) {
                            Ok(x) if x == *d => {}
                            Ok(x) => viol(rep, "default", vec![Step::op("default", i, 0, 0), Step::op("raw", 0, 0, 0)], expect_value(*d), format!("{name} = {x:#x}")),
                            Err(_) => viol(rep, "panic", vec![Step::op("default", i, 0, 0), Step::op("raw", 0, 0, 0)], expect_value(*d), "Panicked".into()),
                        }
                    }
                    if rep.samples.len() < 3 {
                        rep.samples.push(serde_json::json!({"decl": ms.head, "check": "DEFAULT/Default::default()/new() raw values", "expected_and_observed": format!("{d:#x}")}));
                    }
                }
                (None, None) => {}
                (a, b) => viol(rep, "default_presence", vec![Step::op("default", 0, 0, 0)], expect_value(a.is_some() as u128), format!("{}", b.is_some())),
            }
        }
        Err(_) => viol(rep, "panic", vec![Step::op("zero", 0, 0, 0)], expect_value(0), "Panicked".into()),
    }
    // raw round trip
    let states = if ms.n <= full_n { crate::sweep::StateSet::Range(1u128 << ms.n) } else { crate::sweep::StateSet::List(state_alpha(ms.n, &ms.fields)) };
    let mut distinct = std::collections::HashSet::new();
    let mut xi = 0u128;
    while xi < states.len() {
        let x = states.get(xi);
        xi += 1;
        rep.states += 1;
        rep.transitions += 2;
        rep.compared += 1;
        match call(|| m.raw(m.init(x))) {
            Ok(r) => {
                if distinct.len() < 4096 {
                    distinct.insert(r);
                }
                if r != x {
                    viol(rep, "raw", vec![Step::init(x), Step::op("raw", 0, 0, 0)], expect_value(x), format!("{r:#x}"));
                }
            }
            Err(_) => viol(rep, "panic", vec![Step::init(x), Step::op("raw", 0, 0, 0)], expect_value(x), "Panicked".into()),
        }
    }
    rep.distinct_outcomes += distinct.len() as u64;
    if rep.samples.len() < 6 && ms.n % 13 == 0 {
        let x = states.get(states.len() / 2);
        rep.samples.push(serde_json::json!({"decl": ms.head, "trace": format!("new_with_raw_value({x:#x}).raw_value()"), "expected_and_observed": format!("{x:#x}")}));
    }
    let fam = rep.per_family.entry(ms.family.clone()).or_default();
    fam.fields += 1;
    fam.states += states.len() as u64;
    fam.transitions += rep.transitions - t0;
}

fn native_align(size: usize) -> usize {
    match size {
        1 => std::mem::align_of::<u8>(),
        2 => std::mem::align_of::<u16>(),
        4 => std::mem::align_of::<u32>(),
        8 => std::mem::align_of::<u64>(),
        _ => std::mem::align_of::<u128>(),
    }
}

/// Execute one stored trace as a plain program and compare the last observation.
pub fn replay_enum(ems: &[(&dyn crate::machine::EnumMachine, &EnumSpec)], path: &str) -> Report {
    let start = Instant::now();
    let text = std::fs::read_to_string(path).expect("read replay file");
    let v: Violation = serde_json::from_str(&text).expect("parse replay file");
    let m = ems[0].0;
    let mut rep = Report { mode: "replay".into(), exhaustive: true, machines: 1, ..Default::default() };
    let run = || -> String {
        let mut last: u128 = 0;
        for st in &v.trace {
            let r = call(|| match st.op.as_str() {
                "from_raw" => m.from_raw(st.v.0),
                "to_raw" => m.to_raw(st.f),
                "from_raw_of_last" => m.from_raw(last),
                "to_raw_of_last" => m.to_raw(last as usize),
                "returns_result" => m.returns_result() as u128,
                "raw_size" => m.raw_size() as u128,
                other => panic!("unknown op {other}"),
            });
            match r {
                Ok(x) => last = x,
                Err(_) => return "Panicked".into(),
            }
        }
        format!("{last:#x}")
    };
    let first = run();
    let second = run();
    if first != second {
        rep.extra.insert("nondeterministic".into(), serde_json::json!(true));
    }
    rep.transitions = 2 * v.trace.len() as u64;
    rep.states = v.trace.len() as u64;
    rep.compared = 1;
    let ok = match v.expect.kind.as_str() {
        "value" => first == format!("{:#x}", v.expect.value.0),
        "panic" => first == "Panicked",
        "nopanic" => first != "Panicked",
        _ => false,
    };
    rep.extra.insert("observed".into(), serde_json::json!(first));
    rep.extra.insert("reproduces".into(), serde_json::json!(!ok));
    rep.wall_s = start.elapsed().as_secs_f64();
    rep
}

pub fn replay(machines: &[(&dyn Machine, &MachineSpec)], path: &str) -> Report {
    let start = Instant::now();
    let text = std::fs::read_to_string(path).expect("read replay file");
    let v: Violation = serde_json::from_str(&text).expect("parse replay file");
    let (m, ms) = machines[0];
    let mut rep = Report { mode: "replay".into(), exhaustive: true, machines: 1, ..Default::default() };
    let run = || -> String {
        let mut o: u128 = 0;
        let mut last = String::from("<none>");
        for st in &v.trace {
            let r: Result<String, ()> = call(|| match st.op.as_str() {
                "init" => {
                    o = m.init(st.v.0);
                    format!("{o:#x}")
                }
                "with" => {
                    o = m.with(o, st.f, st.idx, st.v.0);
                    format!("{o:#x}")
                }
                "set" => {
                    o = m.set(o, st.f, st.idx, st.v.0);
                    format!("{o:#x}")
                }
                "set_probe" => {
                    let (p, after) = m.set_probe(o, st.f, st.idx, st.v.0);
                    if p {
                        // for an expected value the receiver after the panic is what is compared
                        if v.expect.kind == "value" {
                            return format!("{after:#x}");
                        }
                        std::panic::resume_unwind(Box::new("set_ panicked"));
                    }
                    o = after;
                    format!("{after:#x}")
                }
                "get" => format!("{:#x}", m.get(o, st.f, st.idx)),
                "raw" => format!("{:#x}", m.raw(o)),
                "rewrap" => {
                    o = m.init(m.raw(o));
                    format!("{o:#x}")
                }
                "storage_eq_rewrap" => format!("{:#x}", (m.init(m.raw(o)) == o) as u128),
                "build" => {
                    let args: Vec<u128> = st.args.iter().map(|h| h.0).collect();
                    o = m.build(&args).expect("no builder adapter");
                    format!("{:#x}", m.raw(o))
                }
                "zero" => {
                    o = m.consts().0;
                    format!("{o:#x}")
                }
                "default" => {
                    let d = m.consts().1.expect("no default");
                    o = [d.0, d.1, d.2][st.f];
                    format!("{o:#x}")
                }
                "layout" => {
                    let l = m.layout();
                    format!("{}", if st.f == 0 { l.0 } else { l.1 })
                }
                "dbg" => m.dbg(o, st.f == 1).unwrap_or_default(),
                other => panic!("unknown op {other}"),
            });
            rep_count();
            match r {
                Ok(s) => last = s,
                Err(_) => return "Panicked".into(),
            }
        }
        last
    };
    fn rep_count() {}
    let first = run();
    let second = run();
    rep.transitions = 2 * v.trace.len() as u64;
    rep.states = v.trace.len() as u64;
    if first != second {
        rep.notes.push(format!("NONDETERMINISTIC replay: {first} vs {second}"));
        rep.extra.insert("nondeterministic".into(), serde_json::json!(true));
    }
    let ok = match v.expect.kind.as_str() {
        "value" => first == format!("{:#x}", v.expect.value.0) || first == format!("{}", v.expect.value.0),
        "panic" => first == "Panicked",
        "nopanic" => first != "Panicked",
        "text" => first == v.expect.text,
        _ => false,
    };
    rep.compared = 1;
    rep.extra.insert("observed".into(), serde_json::json!(first));
    rep.extra.insert("reproduces".into(), serde_json::json!(!ok));
    if !ok {
        rep.violation_count = 1;
        let mut vv = v.clone();
        vv.observed = first;
        rep.violations.push(vv);
    }
    let _ = ms;
    rep.wall_s = start.elapsed().as_secs_f64();
    rep
}

// ------------------------------------------------------------------------------------------------
// C07: bitenum conversions

use crate::machine::EnumMachine;

fn enum_raw_alphabet(n: u32, discs: &[u128]) -> Vec<u128> {
    let m = mask(n);
    let mut a = alpha(n);
    for &d in discs {
        a.push(d);
        a.push(d.wrapping_add(1) & m);
        a.push(d.wrapping_sub(1) & m);
    }
    for k in 0..n {
        a.push(((1u128 << k) - 1) & m);
    }
    dedup_keep_order(a)
}

pub fn enums(ems: &[(&dyn EnumMachine, &EnumSpec)], full_n: u32, threads: usize) -> Report {
    let start = Instant::now();
    let mut rep = Report { mode: "enum".into(), exhaustive: true, ..Default::default() };
    let next = std::sync::atomic::AtomicUsize::new(0);
    let parts: Vec<Report> = std::thread::scope(|sc| {
        let hs: Vec<_> = (0..threads.max(1))
            .map(|_| {
                sc.spawn(|| {
                    let mut rep = Report::default();
                    loop {
                        let i = next.fetch_add(1, std::sync::atomic::Ordering::Relaxed);
                        if i >= ems.len() {
                            break;
                        }
                        enum_one(ems[i].0, ems[i].1, full_n, &mut rep, i);
                    }
                    rep
                })
            })
            .collect();
        hs.into_iter().map(|h| h.join().unwrap()).collect()
    });
    for p in parts {
        rep.machines += p.machines;
        rep.fields += p.fields;
        rep.states += p.states;
        rep.transitions += p.transitions;
        rep.compared += p.compared;
        rep.distinct_outcomes += p.distinct_outcomes;
        rep.violation_count += p.violation_count;
        for v in p.violations {
            if rep.violations.len() < 40 {
                rep.violations.push(v);
            }
        }
        for s in p.samples {
            if rep.samples.len() < 6 {
                rep.samples.push(s);
            }
        }
        for (k, v) in p.per_family {
            let e = rep.per_family.entry(k).or_default();
            e.fields += v.fields;
            e.transitions += v.transitions;
            e.states += v.states;
            e.violations += v.violations;
        }
    }
    rep.wall_s = start.elapsed().as_secs_f64();
    rep
}

fn enum_violation(es: &EnumSpec, what: &str, trace: Vec<Step>, e: Expect, obs: String) -> Violation {
    let ms = MachineSpec {
        name: es.name.clone(),
        n: es.n,
        fields: vec![],
        default: None,
        has_builder: false,
        debug: false,
        family: format!("ENUM{}", es.n),
        passes: vec![],
        head: es.text.clone(),
        py: serde_json::json!({"enum": es}),
    };
    Violation {
        what: what.into(),
        machine: es.name.clone(),
        head: es.text.clone(),
        field_text: String::new(),
        family: ms.family.clone(),
        trace,
        expect: e,
        observed: obs,
        spec: ms,
    }
}

fn enum_one(m: &dyn EnumMachine, es: &EnumSpec, full_n: u32, rep: &mut Report, i: usize) {
    rep.machines += 1;
    rep.fields += es.discs.len() as u64;
    let fam_name = format!("ENUM{}:{}", es.n, es.exhaustive);
    let t0 = rep.transitions;
    let v0 = rep.violation_count;
    let discs: Vec<u128> = es.discs.iter().map(|h| h.0).collect();
    let push = |rep: &mut Report, v: Violation| {
        rep.violation_count += 1;
        if rep.violations.len() < 40 {
            rep.violations.push(v);
        }
    };
    // static facts
    rep.transitions += 2;
    rep.compared += 2;
    let want_result = es.exhaustive != "true";
    if m.returns_result() != want_result {
        push(rep, enum_violation(es, "enum_result_type", vec![Step::op("returns_result", 0, 0, 0)], expect_value(want_result as u128), format!("{}", m.returns_result())));
    }
    let st = storage(es.n) as usize / 8;
    if m.raw_size() != st {
        push(rep, enum_violation(es, "enum_storage", vec![Step::op("raw_size", 0, 0, 0)], expect_value(st as u128), format!("{}", m.raw_size())));
    }
    // variant -> raw, and back
    for (vi, &d) in discs.iter().enumerate() {
        rep.transitions += 2;
        rep.compared += 2;
        match call(|| m.to_raw(vi)) {
            Ok(r) if r == d => {}
            Ok(r) => push(rep, enum_violation(es, "enum_to_raw", vec![Step::op("to_raw", vi, 0, 0)], expect_value(d), format!("{r:#x}"))),
            Err(_) => push(rep, enum_violation(es, "panic", vec![Step::op("to_raw", vi, 0, 0)], expect_value(d), "Panicked".into())),
        }
        match call(|| m.from_raw(m.to_raw(vi))) {
            Ok(r) if r == vi as u128 => {}
            Ok(r) => push(rep, enum_violation(es, "enum_roundtrip", vec![Step::op("to_raw", vi, 0, 0), Step::op("from_raw_of_last", 0, 0, 0)], expect_value(vi as u128), format!("{r:#x}"))),
            Err(_) => push(rep, enum_violation(es, "panic", vec![Step::op("to_raw", vi, 0, 0), Step::op("from_raw_of_last", 0, 0, 0)], expect_value(vi as u128), "Panicked".into())),
        }
    }
    // raw -> variant over the raw alphabet
    let index_of: std::collections::HashMap<u128, usize> = discs.iter().enumerate().map(|(i, &d)| (d, i)).collect();
    let n_states: u128 = if es.n <= full_n { 1u128 << es.n } else { 0 };
    let list = if n_states == 0 { enum_raw_alphabet(es.n, &discs) } else { vec![] };
    let total = if n_states == 0 { list.len() as u128 } else { n_states };
    let mut distinct = std::collections::HashSet::new();
    let mut k = 0u128;
    while k < total {
        let x = if n_states == 0 { list[k as usize] } else { k };
        k += 1;
        rep.states += 1;
        rep.transitions += 1;
        rep.compared += 1;
        let want = match index_of.get(&x) {
            Some(&vi) => vi as u128,
            None => ERR_FLAG | x,
        };
        match call(|| m.from_raw(x)) {
            Ok(r) => {
                if distinct.len() < 4096 {
                    distinct.insert(r);
                }
                if r != want {
                    push(rep, enum_violation(es, "enum_from_raw", vec![Step::op("from_raw", 0, 0, x)], expect_value(want), format!("{r:#x}")));
                } else if r & ERR_FLAG == 0 {
                    // and back
                    rep.transitions += 1;
                    rep.compared += 1;
                    match call(|| m.to_raw(r as usize)) {
                        Ok(b) if b == x => {}
                        Ok(b) => push(rep, enum_violation(es, "enum_roundtrip", vec![Step::op("from_raw", 0, 0, x), Step::op("to_raw_of_last", 0, 0, 0)], expect_value(x), format!("{b:#x}"))),
                        Err(_) => push(rep, enum_violation(es, "panic", vec![Step::op("from_raw", 0, 0, x), Step::op("to_raw_of_last", 0, 0, 0)], expect_value(x), "Panicked".into())),
                    }
                }
            }
            Err(_) => push(rep, enum_violation(es, "panic", vec![Step::op("from_raw", 0, 0, x)], expect_value(want), "Panicked".into())),
        }
    }
    rep.distinct_outcomes += distinct.len() as u64;
    if rep.samples.len() < 6 && i % 97 == 0 {
        let x = if n_states == 0 { list[list.len() / 2] } else { n_states / 2 };
        rep.samples.push(serde_json::json!({"decl": es.text, "trace": format!("new_with_raw_value({x:#x})"),
            "expected_and_observed": match index_of.get(&x) { Some(vi) => format!("variant #{vi}"), None => format!("Err({x:#x})") }}));
    }
    let fam = rep.per_family.entry(fam_name).or_default();
    fam.fields += 1;
    fam.states += total as u64;
    fam.transitions += rep.transitions - t0;
    fam.violations += rep.violation_count - v0;
}

// ------------------------------------------------------------------------------------------------
// C13: builder()...build() == fold of with_ from DEFAULT / ZERO

pub fn builder(machines: &[(&dyn Machine, &MachineSpec)], full_w: u32, cap: u128, threads: usize) -> Report {
    let start = Instant::now();
    let mut rep = Report { mode: "builder".into(), exhaustive: true, ..Default::default() };
    let next = std::sync::atomic::AtomicUsize::new(0);
    let sel: Vec<_> = machines.iter().filter(|(_, ms)| ms.has_builder).collect();
    let parts: Vec<Report> = std::thread::scope(|sc| {
        let hs: Vec<_> = (0..threads.max(1))
            .map(|_| {
                sc.spawn(|| {
                    let mut rep = Report::default();
                    loop {
                        let i = next.fetch_add(1, std::sync::atomic::Ordering::Relaxed);
                        if i >= sel.len() {
                            break;
                        }
                        builder_one(sel[i].0, sel[i].1, full_w, cap, &mut rep, i);
                    }
                    rep
                })
            })
            .collect();
        hs.into_iter().map(|h| h.join().unwrap()).collect()
    });
    for p in parts {
        rep.machines += p.machines;
        rep.fields += p.fields;
        rep.states += p.states;
        rep.transitions += p.transitions;
        rep.compared += p.compared;
        rep.distinct_outcomes += p.distinct_outcomes;
        rep.violation_count += p.violation_count;
        for v in p.violations {
            if rep.violations.len() < 40 {
                rep.violations.push(v);
            }
        }
        for s in p.samples {
            if rep.samples.len() < 6 {
                rep.samples.push(s);
            }
        }
        for n in p.notes {
            rep.notes.push(n);
        }
        for (k, v) in p.per_family {
            let e = rep.per_family.entry(k).or_default();
            e.fields += v.fields;
            e.transitions += v.transitions;
            e.states += v.states;
            e.violations += v.violations;
        }
    }
    rep.wall_s = start.elapsed().as_secs_f64();
    rep
}

fn builder_one(m: &dyn Machine, ms: &MachineSpec, full_w: u32, cap: u128, rep: &mut Report, i: usize) {
    rep.machines += 1;
    // one slot per writable (field, element), in declaration order
    let mut slots: Vec<(usize, usize, Vec<u32>, Vec<u128>)> = Vec::new();
    for (fi, f) in ms.fields.iter().enumerate() {
        if !f.writable {
            continue;
        }
        rep.fields += 1;
        for idx in 0..f.arr.map_or(1, |a| a.0) {
            slots.push((fi, idx, positions(f, idx), value_alpha(f, full_w)));
        }
    }
    let t0 = rep.transitions;
    let v0 = rep.violation_count;
    let mut product: u128 = 1;
    for s in &slots {
        product = product.saturating_mul(s.3.len() as u128);
    }
    let mut tuples: Vec<Vec<u128>> = Vec::new();
    let full = product <= cap;
    if full {
        let mut idxs = vec![0usize; slots.len()];
        loop {
            tuples.push(slots.iter().zip(&idxs).map(|(s, &j)| s.3[j]).collect());
            let mut k = 0;
            loop {
                if k == slots.len() {
                    break;
                }
                idxs[k] += 1;
                if idxs[k] < slots[k].3.len() {
                    break;
                }
                idxs[k] = 0;
                k += 1;
            }
            if k == slots.len() {
                break;
            }
        }
    } else {
        // one factor at a time over four backgrounds
        for bg in 0..4usize {
            for (si, s) in slots.iter().enumerate() {
                for &v in &s.3 {
                    let mut t: Vec<u128> = slots
                        .iter()
                        .enumerate()
                        .map(|(j, o)| match bg {
                            0 => o.3[0],
                            1 => o.3[o.3.len() - 1],
                            _ => o.3[(bg * 7 + j * 3) % o.3.len()],
                        })
                        .collect();
                    t[si] = v;
                    tuples.push(t);
                }
            }
        }
        rep.notes.push(format!("{}: argument product {} > cap {}: one-factor-at-a-time over 4 backgrounds ({} tuples)", ms.name, product, cap, tuples.len()));
    }
    let dflt = ms.default.map_or(0, |h| h.0);
    let mut distinct = std::collections::HashSet::new();
    for t in &tuples {
        rep.states += 1;
        // reference (ii): REG from the declared default
        let mut e = dflt;
        for (s, &v) in slots.iter().zip(t) {
            e = ref_put(e, &s.2, v);
        }
        let obs = call(|| {
            let b = m.build(t).expect("no builder adapter");
            let rb = m.raw(b);
            // reference (i): the statement itself on the implementation
            let (zero, d) = m.consts();
            let mut o = match d {
                Some((dd, _, _)) => dd,
                None => zero,
            };
            for (s, &v) in slots.iter().zip(t) {
                o = m.with(o, s.0, s.1, v);
            }
            (rb, m.raw(o), b, o)
        });
        rep.transitions += 3 + slots.len() as u64;
        rep.compared += 2;
        let step = Step { op: "build".into(), f: 0, idx: 0, v: H(0), args: t.iter().map(|&x| H(x)).collect() };
        match obs {
            Ok((rb, rfold, b, o)) => {
                if distinct.len() < 4096 {
                    distinct.insert(rb);
                }
                if rb != e || rfold != e || b != o {
                    rep.violation_count += 1;
                    if rep.violations.len() < 40 {
                        let what = if rb != e { "build_vs_reference" } else if rfold != e { "fold_vs_reference" } else { "build_vs_fold_storage" };
                        let mut v = Violation::new(what, ms, None, vec![step], expect_value(e), format!("build {rb:#x}, fold of with_ {rfold:#x}"));
                        v.spec = ms.clone();
                        v.field_text = ms.fields.iter().map(|f| f.text.clone()).collect::<Vec<_>>().join(", ");
                        rep.violations.push(v);
                    }
                }
            }
            Err(_) => {
                rep.violation_count += 1;
                if rep.violations.len() < 40 {
                    let mut v = Violation::new("panic", ms, None, vec![step], expect_value(e), "Panicked".into());
                    v.spec = ms.clone();
                    v.field_text = ms.fields.iter().map(|f| f.text.clone()).collect::<Vec<_>>().join(", ");
                    rep.violations.push(v);
                }
            }
        }
    }
    rep.distinct_outcomes += distinct.len() as u64;
    if rep.samples.len() < 6 && i % 41 == 0 && !tuples.is_empty() {
        let t = &tuples[tuples.len() / 2];
        let mut e = dflt;
        for (s, &v) in slots.iter().zip(t) {
            e = ref_put(e, &s.2, v);
        }
        rep.samples.push(serde_json::json!({
            "decl": format!("{} {{ {} }}", ms.head, ms.fields.iter().map(|f| f.text.clone()).collect::<Vec<_>>().join(", ")),
            "trace": format!("builder({}).build().raw_value()", t.iter().map(|x| format!("{x:#x}")).collect::<Vec<_>>().join(", ")),
            "expected_and_observed": format!("{e:#x}"), "tuples": tuples.len(), "full_product": full,
        }));
    }
    let fam = rep.per_family.entry(ms.family.clone()).or_default();
    fam.fields += slots.len() as u64;
    fam.states += tuples.len() as u64;
    fam.transitions += rep.transitions - t0;
    fam.violations += rep.violation_count - v0;
}

// ------------------------------------------------------------------------------------------------
// C19: `debug` output vs a derive(Debug) twin filled from the reference register

pub fn debug(machines: &[(&dyn Machine, &MachineSpec)], full_n: u32, threads: usize) -> Report {
    let start = Instant::now();
    let mut rep = Report { mode: "debug".into(), exhaustive: true, ..Default::default() };
    let sel: Vec<_> = machines.iter().filter(|(_, ms)| ms.debug).collect();
    let next = std::sync::atomic::AtomicUsize::new(0);
    let parts: Vec<Report> = std::thread::scope(|sc| {
        let hs: Vec<_> = (0..threads.max(1))
            .map(|_| {
                sc.spawn(|| {
                    let mut rep = Report::default();
                    loop {
                        let i = next.fetch_add(1, std::sync::atomic::Ordering::Relaxed);
                        if i >= sel.len() {
                            break;
                        }
                        debug_one(sel[i].0, sel[i].1, full_n, &mut rep, i);
                    }
                    rep
                })
            })
            .collect();
        hs.into_iter().map(|h| h.join().unwrap()).collect()
    });
    for p in parts {
        rep.machines += p.machines;
        rep.fields += p.fields;
        rep.states += p.states;
        rep.transitions += p.transitions;
        rep.compared += p.compared;
        rep.distinct_outcomes += p.distinct_outcomes;
        rep.violation_count += p.violation_count;
        for v in p.violations {
            if rep.violations.len() < 40 {
                rep.violations.push(v);
            }
        }
        for s in p.samples {
            if rep.samples.len() < 6 {
                rep.samples.push(s);
            }
        }
        for (k, v) in p.per_family {
            let e = rep.per_family.entry(k).or_default();
            e.fields += v.fields;
            e.transitions += v.transitions;
            e.states += v.states;
            e.violations += v.violations;
        }
    }
    rep.wall_s = start.elapsed().as_secs_f64();
    rep
}

fn debug_one(m: &dyn Machine, ms: &MachineSpec, full_n: u32, rep: &mut Report, i: usize) {
    rep.machines += 1;
    rep.fields += ms.fields.len() as u64;
    let states: Vec<u128> = if ms.n <= full_n { (0..(1u128 << ms.n)).collect() } else { state_alpha(ms.n, &ms.fields) };
    let pos: Vec<Vec<u32>> = ms.fields.iter().map(|f| positions(f, 0)).collect();
    let t0 = rep.transitions;
    let v0 = rep.violation_count;
    let mut distinct = std::collections::HashSet::new();
    for &s in &states {
        rep.states += 1;
        let vals: Vec<u128> = ms.fields.iter().zip(&pos).map(|(f, p)| encode_get(f, ref_get(s, p))).collect();
        for alt in [false, true] {
            rep.transitions += 2;
            rep.compared += 1;
            let got = call(|| m.dbg(m.init(s), alt).expect("no dbg adapter"));
            let want = call(|| m.dbg_twin(&vals, alt).expect("no twin adapter")).expect("machinery: twin formatting panicked");
            let trace = vec![Step::init(s), Step::op("dbg", alt as usize, 0, 0)];
            match got {
                Ok(g) => {
                    if distinct.len() < 4096 {
                        distinct.insert(g.clone());
                    }
                    // raw identifiers: `r#type` may be labelled "r#type" or "type" (derive(Debug) prints "type")
                    let raw_names = ms.fields.iter().any(|f| f.name.starts_with("r#"));
                    if g != want && !(raw_names && g.replace("r#", "") == want) {
                        rep.violation_count += 1;
                        if rep.violations.len() < 40 {
                            let mut v = Violation::new("debug_text", ms, None, trace, expect_text(&want), g);
                            v.spec = ms.clone();
                            v.field_text = ms.fields.iter().map(|f| f.text.clone()).collect::<Vec<_>>().join(", ");
                            rep.violations.push(v);
                        }
                    }
                }
                Err(_) => {
                    rep.violation_count += 1;
                    if rep.violations.len() < 40 {
                        let mut v = Violation::new("panic", ms, None, trace, expect_text(&want), "Panicked".into());
                        v.spec = ms.clone();
                        rep.violations.push(v);
                    }
                }
            }
        }
    }
    rep.distinct_outcomes += distinct.len() as u64;
    if rep.samples.len() < 6 && i % 23 == 0 {
        let s = states[states.len() / 2];
        rep.samples.push(serde_json::json!({
            "decl": format!("{} {{ {} }}", ms.head, ms.fields.iter().map(|f| f.text.clone()).collect::<Vec<_>>().join(", ")),
            "trace": format!("format!(\"{{:?}}\", new_with_raw_value({s:#x}))"),
            "expected_and_observed": m.dbg(m.init(s), false),
        }));
    }
    let fam = rep.per_family.entry(ms.family.clone()).or_default();
    fam.fields += ms.fields.len() as u64;
    fam.states += states.len() as u64;
    fam.transitions += rep.transitions - t0;
    fam.violations += rep.violation_count - v0;
}

// ------------------------------------------------------------------------------------------------
// C15: compile-time tables vs the same calls at run time

pub fn consteval(machines: &[(&dyn Machine, &MachineSpec)], ems: &[(&dyn EnumMachine, &EnumSpec)]) -> Report {
    let start = Instant::now();
    let mut rep = Report { mode: "consteval".into(), exhaustive: true, ..Default::default() };
    for &(m, ms) in machines {
        let tables = m.const_tables();
        if tables.is_empty() {
            continue;
        }
        rep.machines += 1;
        let fam_name = ms.family.clone();
        let mut kinds = std::collections::BTreeSet::new();
        for t in &tables {
            kinds.insert(t.kind);
            rep.fields += 1;
            let ncol = t.values.len().max(1);
            let bad = |rep: &mut Report, what: &str, trace: Vec<Step>, ct: u128, rt: String| {
                rep.violation_count += 1;
                rep.per_family.entry(fam_name.clone()).or_default().violations += 1;
                if rep.violations.len() < 40 {
                    let mut v = Violation::new(what, ms, None, trace, expect_value(ct), rt);
                    v.spec = ms.clone();
                    v.field_text = ms.fields.iter().map(|f| f.text.clone()).collect::<Vec<_>>().join(", ");
                    rep.violations.push(v);
                }
            };
            match t.kind {
                "zero" | "default" => {
                    rep.transitions += 2;
                    rep.compared += 1;
                    let (z, d) = m.consts();
                    let o = if t.kind == "zero" { z } else { d.map(|x| x.0).unwrap_or(!0) };
                    let rt = call(|| m.raw(std::hint::black_box(o)));
                    if rt != Ok(t.table[0]) {
                        bad(&mut rep, "const_vs_runtime", vec![Step::op(t.kind, 0, 0, 0), Step::op("raw", 0, 0, 0)], t.table[0], format!("{rt:x?}"));
                    }
                }
                "build" => {
                    for (i, a) in t.args.iter().enumerate() {
                        rep.transitions += 2;
                        rep.compared += 1;
                        rep.states += 1;
                        let args: Vec<u128> = std::hint::black_box(a.to_vec());
                        let rt = call(|| m.raw(m.build(&args).expect("no builder adapter")));
                        if rt != Ok(t.table[i]) {
                            bad(&mut rep, "const_vs_runtime", vec![Step { op: "build".into(), f: 0, idx: 0, v: H(0), args: a.iter().map(|&x| H(x)).collect() }], t.table[i], format!("{rt:x?}"));
                        }
                    }
                }
                _ => {
                    for (i, &s) in t.states.iter().enumerate() {
                        rep.states += 1;
                        let s = std::hint::black_box(s);
                        match t.kind {
                            "raw" => {
                                rep.transitions += 2;
                                rep.compared += 1;
                                let rt = call(|| m.raw(m.init(s)));
                                if rt != Ok(t.table[i]) {
                                    bad(&mut rep, "const_vs_runtime", vec![Step::init(s), Step::op("raw", 0, 0, 0)], t.table[i], format!("{rt:x?}"));
                                }
                            }
                            "get" => {
                                rep.transitions += 2;
                                rep.compared += 1;
                                let rt = call(|| m.get(m.init(s), t.f, t.idx));
                                if rt != Ok(t.table[i]) {
                                    bad(&mut rep, "const_vs_runtime", vec![Step::init(s), Step::op("get", t.f, t.idx, 0)], t.table[i], format!("{rt:x?}"));
                                }
                            }
                            "with" => {
                                for (j, &v) in t.values.iter().enumerate() {
                                    rep.transitions += 3;
                                    rep.compared += 1;
                                    let v = std::hint::black_box(v);
                                    let rt = call(|| m.raw(m.with(m.init(s), t.f, t.idx, v)));
                                    if rt != Ok(t.table[i * ncol + j]) {
                                        bad(&mut rep, "const_vs_runtime", vec![Step::init(s), Step::op("with", t.f, t.idx, v), Step::op("raw", 0, 0, 0)], t.table[i * ncol + j], format!("{rt:x?}"));
                                    }
                                }
                            }
                            other => panic!("unknown table kind {other}"),
                        }
                    }
                }
            }
        }
        let fam = rep.per_family.entry(ms.family.clone()).or_default();
        fam.fields += tables.len() as u64;
        fam.states += 1;
        if rep.samples.len() < 4 && rep.machines % 7 == 1 {
            rep.samples.push(serde_json::json!({"decl": format!("{} {{ {} }}", ms.head, ms.fields.iter().map(|f| f.text.clone()).collect::<Vec<_>>().join(", ")),
                "tables": tables.iter().map(|t| format!("{}[f{} idx{}]: {} states x {} values", t.kind, t.f, t.idx, t.states.len().max(t.args.len()), t.values.len().max(1))).collect::<Vec<_>>() }));
        }
        rep.distinct_outcomes += kinds.len() as u64;
    }
    for &(m, es) in ems {
        let tables = m.const_tables();
        if tables.is_empty() {
            continue;
        }
        rep.machines += 1;
        for t in &tables {
            rep.fields += 1;
            for (i, &s) in t.states.iter().enumerate() {
                rep.states += 1;
                rep.transitions += 1;
                rep.compared += 1;
                let s = std::hint::black_box(s);
                let rt = match t.kind {
                    "enum_from" => call(|| m.from_raw(s)),
                    "enum_to" => call(|| m.to_raw(s as usize)),
                    other => panic!("unknown enum table kind {other}"),
                };
                if rt != Ok(t.table[i]) {
                    rep.violation_count += 1;
                    if rep.violations.len() < 40 {
                        let op = if t.kind == "enum_from" { Step::op("from_raw", 0, 0, s) } else { Step::op("to_raw", s as usize, 0, 0) };
                        rep.violations.push(enum_violation(es, "const_vs_runtime", vec![op], expect_value(t.table[i]), format!("{rt:x?}")));
                    }
                }
            }
        }
        let fam = rep.per_family.entry(format!("ENUM{}", es.n)).or_default();
        fam.fields += tables.len() as u64;
        fam.states += 1;
    }
    rep.wall_s = start.elapsed().as_secs_f64();
    rep
}
