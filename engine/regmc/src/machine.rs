//! The adapter interface every generated struct implements (generated, mechanical casts only).
//!
//! An object is carried as its storage bits (`size_of::<S>()` bytes copied out of / into the
//! `Copy` value, widened to u128). All field values and observations are bit patterns in u128.

pub trait Machine: Sync + Send {
    fn name(&self) -> &'static str;
    /// `S::new_with_raw_value(<base>::new(x))` -> object bits
    fn init(&self, x: u128) -> u128;
    /// `o.raw_value()` as u128
    fn raw(&self, o: u128) -> u128;
    /// getter of field f (element idx for arrays), normalised to bits:
    /// uN -> value, iN -> (v as uN), bool -> 0/1, enum -> discriminant via a generated `match`,
    /// Result<E, p> -> discriminant or ERR_FLAG | p, nested bitfield -> its raw value
    fn get(&self, o: u128, f: usize, idx: usize) -> u128;
    /// `o.with_f(v)` -> new object bits. The adapter also checks that the receiver's bytes did not change.
    fn with(&self, o: u128, f: usize, idx: usize, v: u128) -> u128;
    /// copy of o, `set_f(v)` on the copy -> object bits of the copy
    fn set(&self, o: u128, f: usize, idx: usize, v: u128) -> u128;
    /// like `set`, but the call is wrapped in catch_unwind inside the adapter so that the
    /// receiver can be inspected after a panic: (panicked, receiver bits afterwards)
    fn set_probe(&self, o: u128, f: usize, idx: usize, v: u128) -> (bool, u128);
    /// `S::builder().with_..(..)...build()`; args are flattened in declaration order over the
    /// writable fields, array fields contribute K consecutive values. None if no builder is expected.
    fn build(&self, _args: &[u128]) -> Option<u128> {
        None
    }
    /// (ZERO, DEFAULT, Default::default(), new()) as object bits; the last three only with a default
    fn consts(&self) -> (u128, Option<(u128, u128, u128)>);
    /// (size_of, align_of)
    fn layout(&self) -> (usize, usize);
    /// `format!("{:?}")` / `{:#?}` of the object, when the struct was declared with `debug`
    fn dbg(&self, _o: u128, _alt: bool) -> Option<String> {
        None
    }
    /// the same for the twin plain struct filled with the given getter observations (one per field)
    fn dbg_twin(&self, _vals: &[u128], _alt: bool) -> Option<String> {
        None
    }
    /// compile-time tables (C15)
    fn const_tables(&self) -> Vec<ConstTable> {
        Vec::new()
    }
}

pub trait EnumMachine: Sync + Send {
    fn name(&self) -> &'static str;
    /// E::new_with_raw_value(x): Ok(variant) / plain variant -> index of the variant in declaration
    /// order (after cfg); Err(y) -> ERR_FLAG | y
    fn from_raw(&self, x: u128) -> u128;
    /// variant (by index) .raw_value() as u128
    fn to_raw(&self, variant: usize) -> u128;
    /// size_of the type returned by raw_value()
    fn raw_size(&self) -> usize;
    /// true when new_with_raw_value returns Result
    fn returns_result(&self) -> bool;
    /// compile-time tables (C15)
    fn const_tables(&self) -> Vec<ConstTable> {
        Vec::new()
    }
}

/// Copy the storage bytes of a generated object out as an integer (little endian host).
pub fn to_bits<T: Copy>(o: &T) -> u128 {
    let mut b = [0u8; 16];
    let n = std::mem::size_of::<T>().min(16);
    // SAFETY: T is Copy (plain data), n <= size_of::<T>() and n <= 16
    unsafe { std::ptr::copy_nonoverlapping(o as *const T as *const u8, b.as_mut_ptr(), n) };
    u128::from_le_bytes(b)
}

/// Rebuild an object from storage bits produced by `to_bits` of the same type.
/// `proto` supplies any bytes beyond the first 16 (never the case for the generated structs).
pub fn from_bits<T: Copy>(x: u128, proto: T) -> T {
    let mut o = proto;
    let b = x.to_le_bytes();
    let n = std::mem::size_of::<T>().min(16);
    // SAFETY: as above; the generated structs are repr(C) wrappers of one native integer, every bit
    // pattern of which is a valid value
    unsafe { std::ptr::copy_nonoverlapping(b.as_ptr(), &mut o as *mut T as *mut u8, n) };
    o
}

/// A table computed by the compiler's const evaluator (a `static` initialiser) from the generated
/// const fns, handed to the engine for comparison with the same calls executed at run time (C15).
pub struct ConstTable {
    /// raw | get | with | build | zero | default | enum_from | enum_to
    pub kind: &'static str,
    pub f: usize,
    pub idx: usize,
    pub states: &'static [u128],
    pub values: &'static [u128],
    /// flattened: states x values (values may be empty = 1 column)
    pub table: &'static [u128],
    /// for build: one argument tuple per row
    pub args: &'static [&'static [u128]],
}
