//! REG — the boring reference register. Bit at a time, written from the declaration only.

use crate::spec::{mask, FieldSpec};

/// Positions in the register of value bit k (k = index in the returned vector) for element `idx`.
pub fn positions(f: &FieldSpec, idx: usize) -> Vec<u32> {
    let shift = f.arr.map_or(0, |(_, stride)| idx * stride) as u32;
    let mut p = Vec::with_capacity(f.w as usize);
    for &(lo, len) in &f.ranges {
        for k in 0..len {
            p.push(lo + k + shift);
        }
    }
    p
}

/// ref_get(s) = sum_k ((s >> pos_k) & 1) << k
pub fn ref_get(s: u128, pos: &[u32]) -> u128 {
    let mut out = 0u128;
    for (k, &b) in pos.iter().enumerate() {
        out |= ((s >> b) & 1) << k;
    }
    out
}

/// ref_put(s, v): for each k, bit pos_k of s := bit k of v; all other bits unchanged.
pub fn ref_put(s: u128, pos: &[u32], v: u128) -> u128 {
    let mut out = s;
    for (k, &b) in pos.iter().enumerate() {
        out = (out & !(1u128 << b)) | (((v >> k) & 1) << b);
    }
    out
}

/// Segment-based fast path used in the big sweeps. Checked against the bit-at-a-time version
/// at start-up (`Seg::self_check`).
#[derive(Clone, Debug)]
pub struct Seg {
    /// (register low bit, value low bit, length mask)
    segs: Vec<(u32, u32, u128)>,
    clear: u128,
}

impl Seg {
    /// every register bit the element names (union of its ranges)
    pub fn field_mask(&self) -> u128 {
        self.clear
    }

    pub fn new(f: &FieldSpec, idx: usize) -> Seg {
        let shift = f.arr.map_or(0, |(_, stride)| idx * stride) as u32;
        let mut segs = Vec::new();
        let mut vlo = 0u32;
        let mut clear = 0u128;
        for &(lo, len) in &f.ranges {
            let m = mask(len);
            segs.push((lo + shift, vlo, m));
            clear |= m << (lo + shift);
            vlo += len;
        }
        Seg { segs, clear }
    }
    #[inline]
    pub fn get(&self, s: u128) -> u128 {
        let mut out = 0u128;
        for &(rlo, vlo, m) in &self.segs {
            out |= ((s >> rlo) & m) << vlo;
        }
        out
    }
    #[inline]
    pub fn put(&self, s: u128, v: u128) -> u128 {
        let mut out = s & !self.clear;
        for &(rlo, vlo, m) in &self.segs {
            out |= ((v >> vlo) & m) << rlo;
        }
        out
    }
    pub fn covered(&self) -> u128 {
        self.clear
    }
    /// Compare with the bit-at-a-time reference on the given states/values.
    /// Only meaningful for range lists that do not name a bit twice (all generated layouts).
    pub fn self_check(&self, pos: &[u32], states: &[u128], vals: &[u128]) -> Result<u64, String> {
        let mut n = 0u64;
        for &s in states {
            if self.get(s) != ref_get(s, pos) {
                return Err(format!("seg get mismatch at state {s:#x}"));
            }
            n += 1;
            for &v in vals {
                if self.put(s, v) != ref_put(s, pos, v) {
                    return Err(format!("seg put mismatch at state {s:#x} value {v:#x}"));
                }
                n += 1;
            }
        }
        Ok(n)
    }
}

/// The finite alphabet of DESIGN.md section 3 for an n-bit quantity:
/// {0, all-ones} U walking one U walking zero U {0xAA.., 0x55.., nibble ramps}.
/// Ordered simplest first.
pub fn alpha(n: u32) -> Vec<u128> {
    let m = mask(n);
    let mut a = vec![0, m];
    for k in 0..n {
        a.push(1u128 << k);
    }
    for k in 0..n {
        a.push(m & !(1u128 << k));
    }
    a.push(0xAAAA_AAAA_AAAA_AAAA_AAAA_AAAA_AAAA_AAAAu128 & m);
    a.push(0x5555_5555_5555_5555_5555_5555_5555_5555u128 & m);
    a.push(0x0123_4567_89AB_CDEF_FEDC_BA98_7654_3210u128 & m);
    a.push(0xFEDC_BA98_7654_3210_0123_4567_89AB_CDEFu128 & m);
    dedup_keep_order(a)
}

/// 4-value core alphabet.
pub fn core4(n: u32) -> Vec<u128> {
    let m = mask(n);
    dedup_keep_order(vec![
        0,
        m,
        0xAAAA_AAAA_AAAA_AAAA_AAAA_AAAA_AAAA_AAAAu128 & m,
        0x5555_5555_5555_5555_5555_5555_5555_5555u128 & m,
    ])
}

pub fn dedup_keep_order(a: Vec<u128>) -> Vec<u128> {
    let mut seen = std::collections::HashSet::new();
    let mut out = Vec::with_capacity(a.len());
    for x in a {
        if seen.insert(x) {
            out.push(x);
        }
    }
    out
}

/// State alphabet A(N, machine): alpha(N) plus, per field (first and last element),
/// {field all-ones & rest zero, field zero & rest ones}.
pub fn state_alpha(n: u32, fields: &[FieldSpec]) -> Vec<u128> {
    let m = mask(n);
    let mut a = alpha(n);
    for f in fields {
        let cnt = f.arr.map_or(1, |a| a.0);
        let mut idxs = vec![0usize];
        if cnt > 1 {
            idxs.push(cnt - 1);
        }
        for idx in idxs {
            let mut cov = 0u128;
            for b in positions(f, idx) {
                if b < 128 {
                    cov |= 1u128 << b;
                }
            }
            a.push(cov & m);
            a.push(!cov & m);
        }
    }
    dedup_keep_order(a)
}

/// Value alphabet of a field: every discriminant for enum kinds, all 2^w values when w <= full_w,
/// otherwise alpha(w).
pub fn value_alpha(f: &FieldSpec, full_w: u32) -> Vec<u128> {
    if let Some(d) = &f.discs {
        if f.kind == "e" || f.kind == "o" {
            return d.iter().map(|h| h.0).collect();
        }
    }
    if f.w <= full_w {
        (0..(1u128 << f.w)).collect()
    } else {
        alpha(f.w)
    }
}

/// How a getter observation of raw field bits `bits` is encoded by the adapters.
/// For `o` (Option<enum>) fields: Ok(variant) -> discriminant, Err(x) -> ERR | x.
pub const ERR_FLAG: u128 = 1u128 << 127;
pub fn encode_get(f: &FieldSpec, bits: u128) -> u128 {
    if f.kind == "o" {
        let d = f.discs.as_ref().expect("o field without discs");
        if d.iter().any(|h| h.0 == bits) {
            bits
        } else {
            ERR_FLAG | bits
        }
    } else {
        bits
    }
}

#[cfg(test)]
mod tests {
    use super::*;
    #[test]
    fn seg_matches_bits() {
        let f = FieldSpec {
            name: "x".into(),
            ranges: vec![(5, 2), (0, 3)],
            arr: Some((2, 8)),
            kind: "u".into(),
            w: 5,
            readable: true,
            writable: true,
            discs: None,
            family: String::new(),
            text: String::new(),
            py: serde_json::Value::Null,
        };
        for idx in 0..2 {
            let pos = positions(&f, idx);
            let seg = Seg::new(&f, idx);
            let states: Vec<u128> = (0..65536).collect();
            let vals: Vec<u128> = (0..32).collect();
            seg.self_check(&pos, &states, &vals).unwrap();
        }
    }
}
