//! regmc — register-machine checker: explicit-state exploration of the code rustc generates
//! from the real `bitbybit` macros, against a bit-by-bit reference register.

pub mod machine;
pub mod reference;
pub mod report;
pub mod spec;
pub mod sweep;
pub mod modes;
pub mod product;

pub use machine::{ConstTable, EnumMachine, Machine};
pub use reference::ERR_FLAG;

use std::collections::HashMap;

fn arg<'a>(args: &'a [String], key: &str) -> Option<&'a str> {
    args.iter().position(|a| a == key).and_then(|i| args.get(i + 1)).map(|s| s.as_str())
}

/// Entry point of every generated runner binary.
pub fn cli_main(machines: Vec<Box<dyn Machine>>, enums: Vec<Box<dyn EnumMachine>>) {
    // panics of the subject are observations (caught by catch_unwind); only panics raised by the engine's
    // own code are printed, so that a machinery failure is never silent
    std::panic::set_hook(Box::new(|info| {
        if let Some(loc) = info.location() {
            if loc.file().contains("regmc/src") {
                eprintln!("machinery panic: {info}");
            }
        }
    }));
    let args: Vec<String> = std::env::args().collect();
    let mode = args.get(1).cloned().unwrap_or_default();
    let spec_path = arg(&args, "--spec").expect("--spec");
    let out_path = arg(&args, "--out").expect("--out");
    let spec_text = std::fs::read_to_string(spec_path).expect("read spec");
    // the spec is run-time data: keep the optimiser from seeing through it
    let spec_text = std::hint::black_box(spec_text);
    let spec: &'static spec::SpecFile = Box::leak(Box::new(serde_json::from_str(&spec_text).expect("parse spec")));
    let machines: &'static [Box<dyn Machine>] = Box::leak(machines.into_boxed_slice());
    let by_name: HashMap<&str, &'static dyn Machine> = machines.iter().map(|m| (m.name(), m.as_ref())).collect();
    let mut paired: Vec<(&'static dyn Machine, &'static spec::MachineSpec)> = Vec::new();
    for ms in &spec.machines {
        match by_name.get(ms.name.as_str()) {
            Some(m) => paired.push((*m, ms)),
            None => {
                eprintln!("machinery: spec machine {} has no adapter", ms.name);
                std::process::exit(2);
            }
        }
    }
    let eby: HashMap<&str, &dyn EnumMachine> = enums.iter().map(|m| (m.name(), m.as_ref())).collect();
    let mut epaired: Vec<(&dyn EnumMachine, &spec::EnumSpec)> = Vec::new();
    for es in &spec.enums {
        match eby.get(es.name.as_str()) {
            Some(m) => epaired.push((*m, es)),
            None => {
                eprintln!("machinery: spec enum {} has no adapter", es.name);
                std::process::exit(2);
            }
        }
    }
    let get = |k: &str, d: &str| arg(&args, k).unwrap_or(d).to_string();
    let threads: usize = get("--threads", "16").parse().unwrap();
    let wall_cap_s: f64 = get("--wall-cap", "100000").parse().unwrap();
    let rep = match mode.as_str() {
        "sweep" => {
            let cfg = sweep::SweepCfg {
                ops: get("--ops", "all"),
                full_n: get("--full-n", "16").parse().unwrap(),
                full_w: get("--full-w", "8").parse().unwrap(),
                oob: get("--oob", "0") == "1",
                wall_cap_s,
                threads,
                families: get("--families", "").split(',').filter(|s| !s.is_empty()).map(|s| s.to_string()).collect(),
                kinds: get("--kinds", ""),
                strict_storage: get("--strict-storage", "0") == "1",
                panic_only: get("--panic-only", "0") == "1",
            };
            sweep::sweep(&paired, &cfg)
        }
        "consts" => modes::consts(&paired, get("--full-n", "16").parse().unwrap(), threads),
        "product" => {
            let cfg = product::ProductCfg {
                full_n: get("--full-n", "12").parse().unwrap(),
                values: get("--values", "small"),
                full_w: get("--full-w", "8").parse().unwrap(),
                depth: get("--depth", "0").parse().unwrap(),
                threads,
                props: get("--props", ""),
            };
            let fams: Vec<String> = get("--families", "").split(',').filter(|s| !s.is_empty()).map(|s| s.to_string()).collect();
            let sel: Vec<_> = paired.iter().filter(|(_, ms)| fams.is_empty() || fams.iter().any(|f| *f == ms.family)).cloned().collect();
            product::product(&sel, &cfg)
        }
        "builder" => {
            let refs: Vec<(&dyn Machine, &spec::MachineSpec)> = paired.iter().map(|&(m, s)| (m as &dyn Machine, s as &spec::MachineSpec)).collect();
            modes::builder(&refs, get("--full-w", "8").parse().unwrap(), get("--cap", "65536").parse().unwrap(), threads)
        }
        "consteval" => {
            let refs: Vec<(&dyn Machine, &spec::MachineSpec)> = paired.iter().map(|&(m, s)| (m as &dyn Machine, s as &spec::MachineSpec)).collect();
            modes::consteval(&refs, &epaired)
        }
        "debug" => {
            let refs: Vec<(&dyn Machine, &spec::MachineSpec)> = paired.iter().map(|&(m, s)| (m as &dyn Machine, s as &spec::MachineSpec)).collect();
            modes::debug(&refs, get("--full-n", "16").parse().unwrap(), threads)
        }
        "enum" => modes::enums(&epaired, get("--full-n", "16").parse().unwrap(), threads),
        "replay" if paired.is_empty() => modes::replay_enum(&epaired, &get("--replay", "")),
        "replay" => modes::replay(&paired, &get("--replay", "")),
        other => {
            eprintln!("machinery: unknown mode {other}");
            std::process::exit(2);
        }
    };
    std::fs::write(out_path, serde_json::to_string_pretty(&rep).unwrap()).expect("write report");
    println!(
        "regmc {}: machines={} fields={} states={} transitions={} compared={} violations={} exhaustive={} wall={:.1}s",
        rep.mode, rep.machines, rep.fields, rep.states, rep.transitions, rep.compared, rep.violation_count, rep.exhaustive, rep.wall_s
    );
}
