//! Layout specifications: what the *declaration* says, as run-time data.
//!
//! The spec is produced by the Python generator from the same tuple it prints the
//! declaration text from; it reaches the reference register only through `serde_json`
//! at run time (never as compile-time constants, see DESIGN.md section 3).

use serde::{Deserialize, Deserializer, Serialize, Serializer};

/// u128 carried as a hex string in JSON (serde_json numbers stop at u64).
#[derive(Clone, Copy, Debug, PartialEq, Eq, Hash, PartialOrd, Ord, Default)]
pub struct H(pub u128);

impl Serialize for H {
    fn serialize<S: Serializer>(&self, s: S) -> Result<S::Ok, S::Error> {
        s.serialize_str(&format!("{:#x}", self.0))
    }
}
impl<'de> Deserialize<'de> for H {
    fn deserialize<D: Deserializer<'de>>(d: D) -> Result<Self, D::Error> {
        let s = String::deserialize(d)?;
        let t = s.trim_start_matches("0x");
        u128::from_str_radix(t, 16)
            .map(H)
            .map_err(|e| serde::de::Error::custom(format!("bad hex {s}: {e}")))
    }
}

#[derive(Clone, Debug, Deserialize, Serialize)]
pub struct FieldSpec {
    pub name: String,
    /// (lowest bit, number of bits), in declaration order; first range = least significant value bits
    pub ranges: Vec<(u32, u32)>,
    /// (count, stride)
    pub arr: Option<(usize, usize)>,
    /// b bool, u arbitrary-int, n native unsigned, i native signed,
    /// e exhaustive enum, o Option<enum> (non-exhaustive), c nested bitfield
    pub kind: String,
    /// total number of value bits
    pub w: u32,
    pub readable: bool,
    pub writable: bool,
    /// discriminants for enum kinds
    #[serde(default)]
    pub discs: Option<Vec<H>>,
    /// family label the generator assigned (for reporting)
    #[serde(default)]
    pub family: String,
    /// the attribute + field line as written in the declaration
    #[serde(default)]
    pub text: String,
    /// generator-side description of the field (opaque here; used to regenerate the declaration for replay)
    #[serde(default)]
    pub py: serde_json::Value,
}

#[derive(Clone, Debug, Deserialize, Serialize)]
pub struct MachineSpec {
    pub name: String,
    /// exposed base width N
    pub n: u32,
    pub fields: Vec<FieldSpec>,
    /// declared default raw value, if any
    #[serde(default)]
    pub default: Option<H>,
    #[serde(default)]
    pub has_builder: bool,
    #[serde(default)]
    pub debug: bool,
    #[serde(default)]
    pub family: String,
    /// sweep passes: (state set, value set) with sets in full | alpha | core4
    #[serde(default)]
    pub passes: Vec<(String, String)>,
    /// header line of the declaration (`#[bitfield(u8, default = 3)] pub struct S0`)
    #[serde(default)]
    pub head: String,
    /// generator-side description of the struct (opaque here)
    #[serde(default)]
    pub py: serde_json::Value,
}

#[derive(Clone, Debug, Deserialize, Serialize)]
pub struct EnumSpec {
    pub name: String,
    pub n: u32,
    /// "true" | "false" | "conditional"
    pub exhaustive: String,
    /// discriminants of the variants that exist after cfg evaluation, in declaration order
    pub discs: Vec<H>,
    #[serde(default)]
    pub text: String,
}

#[derive(Clone, Debug, Deserialize, Serialize, Default)]
pub struct SpecFile {
    #[serde(default)]
    pub machines: Vec<MachineSpec>,
    #[serde(default)]
    pub enums: Vec<EnumSpec>,
}

pub fn storage(n: u32) -> u32 {
    for w in [8, 16, 32, 64, 128] {
        if n <= w {
            return w;
        }
    }
    panic!("width {n} > 128")
}

pub fn mask(w: u32) -> u128 {
    if w >= 128 {
        u128::MAX
    } else {
        (1u128 << w) - 1
    }
}
