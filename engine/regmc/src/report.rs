use crate::spec::{FieldSpec, MachineSpec, H};
use serde::{Deserialize, Serialize};

#[derive(Clone, Debug, Serialize, Deserialize, PartialEq)]
pub struct Step {
    /// init | with | set | get | raw | rewrap | build | set_probe
    pub op: String,
    #[serde(default)]
    pub f: usize,
    #[serde(default)]
    pub idx: usize,
    #[serde(default)]
    pub v: H,
    /// for build: the flattened argument list
    #[serde(default)]
    pub args: Vec<H>,
}

impl Step {
    pub fn init(x: u128) -> Step {
        Step { op: "init".into(), f: 0, idx: 0, v: H(x), args: vec![] }
    }
    pub fn op(op: &str, f: usize, idx: usize, v: u128) -> Step {
        Step { op: op.into(), f, idx, v: H(v), args: vec![] }
    }
}

/// What the last step of a trace is expected to show.
#[derive(Clone, Debug, Serialize, Deserialize)]
pub struct Expect {
    /// value | panic | text
    pub kind: String,
    #[serde(default)]
    pub value: H,
    #[serde(default)]
    pub text: String,
}

#[derive(Clone, Debug, Serialize, Deserialize)]
pub struct Violation {
    /// short class: get | frame | readback | set_vs_with | raw | panic | oob_nopanic | oob_receiver | hidden | ...
    pub what: String,
    pub machine: String,
    pub head: String,
    pub field_text: String,
    pub family: String,
    /// operation list; the observation of the last step is what is compared
    pub trace: Vec<Step>,
    pub expect: Expect,
    pub observed: String,
    pub spec: MachineSpec,
}

impl Violation {
    pub fn new(
        what: &str,
        m: &MachineSpec,
        f: Option<&FieldSpec>,
        trace: Vec<Step>,
        expect: Expect,
        observed: String,
    ) -> Violation {
        // keep the replay artefact small: only the field(s) the trace touches
        let mut spec = m.clone();
        let mut used: Vec<usize> = trace
            .iter()
            .filter(|s| is_field_op(&s.op))
            .map(|s| s.f)
            .collect();
        used.sort();
        used.dedup();
        let has_build = trace.iter().any(|s| s.op == "build");
        let mut trace = trace;
        if !has_build && !spec.debug {
            let mut newf = Vec::new();
            for (ni, &oi) in used.iter().enumerate() {
                let mut fs = spec.fields[oi].clone();
                fs.name = format!("f{ni}");
                newf.push(fs);
                for s in trace.iter_mut() {
                    if is_field_op(&s.op) && s.f == oi {
                        s.f = ni;
                    }
                }
            }
            // remapping above must not collide: do it in two phases when indices overlap
            spec.fields = newf;
            spec.has_builder = false;
        }
        Violation {
            what: what.into(),
            machine: m.name.clone(),
            head: m.head.clone(),
            field_text: f.map(|f| f.text.clone()).unwrap_or_default(),
            family: f.map(|f| f.family.clone()).unwrap_or_else(|| m.family.clone()),
            trace,
            expect,
            observed,
            spec,
        }
    }
}

fn is_field_op(op: &str) -> bool {
    matches!(op, "with" | "set" | "get" | "set_probe")
}

pub fn expect_value(v: u128) -> Expect {
    Expect { kind: "value".into(), value: H(v), text: String::new() }
}
pub fn expect_panic() -> Expect {
    Expect { kind: "panic".into(), value: H(0), text: String::new() }
}
pub fn expect_text(t: &str) -> Expect {
    Expect { kind: "text".into(), value: H(0), text: t.into() }
}

#[derive(Clone, Debug, Serialize, Deserialize, Default)]
pub struct Report {
    pub mode: String,
    pub machines: u64,
    pub fields: u64,
    /// distinct (machine, state) pairs visited
    pub states: u64,
    /// calls executed on the implementation
    pub transitions: u64,
    /// comparisons of an implementation observation with the reference
    pub compared: u64,
    pub distinct_outcomes: u64,
    pub violation_count: u64,
    pub violations: Vec<Violation>,
    pub exhaustive: bool,
    pub closed: Option<bool>,
    pub caps_hit: Vec<String>,
    pub per_family: std::collections::BTreeMap<String, FamilyCount>,
    /// machine name -> digest over the ordered observation stream
    pub digests: std::collections::BTreeMap<String, String>,
    pub samples: Vec<serde_json::Value>,
    pub notes: Vec<String>,
    pub wall_s: f64,
    pub extra: std::collections::BTreeMap<String, serde_json::Value>,
}

#[derive(Clone, Debug, Serialize, Deserialize, Default)]
pub struct FamilyCount {
    pub fields: u64,
    pub transitions: u64,
    pub states: u64,
    pub violations: u64,
}
