//! Product machine (real generated object x reference register) explored with stateright.
//!
//! State = (object storage bits, per-bit shadow register, depth). Initial states = `init(x)` for all x
//! of FULL(N) or A(N). Actions = every writable (field, element) x value alphabet x {with_, set_}, and the
//! builder chain where one exists. Properties are evaluated in every reached state by calling the
//! implementation (raw_value, every getter, re-wrap) and comparing with the shadow.

use crate::machine::Machine;
use crate::reference::*;
use crate::report::*;
use crate::spec::*;
use stateright::{Checker, Model, Property};
use std::panic::{catch_unwind, AssertUnwindSafe};
use std::sync::atomic::{AtomicU64, Ordering};
use std::sync::Arc;
use std::time::Instant;

#[derive(Clone, Debug, Hash, PartialEq, Eq)]
pub struct PState {
    pub obj: u128,
    pub shadow: u128,
    /// number of transitions from the initial state; part of the key (parallel BFS does not visit in
    /// strict depth order, so a state first seen deep must still be expanded when reached shallow)
    pub depth: u8,
    pub panicked: bool,
}

#[derive(Clone, Debug, PartialEq)]
pub enum Act {
    Put { f: usize, idx: usize, v: u128, set: bool },
    Build(usize),
}

#[derive(Default)]
pub struct Counters {
    pub transitions: AtomicU64,
    pub compared: AtomicU64,
}

pub struct Product {
    pub m: &'static dyn Machine,
    pub ms: &'static MachineSpec,
    pub init: Vec<u128>,
    pub acts: Vec<Act>,
    pub build_args: Vec<Vec<u128>>,
    pub max_depth: u8,
    pub counters: Arc<Counters>,
    /// positions per (field, idx)
    pub pos: Vec<Vec<Vec<u32>>>,
    pub arbitrary_base: bool,
}

fn call<T, F: FnOnce() -> T>(f: F) -> Result<T, ()> {
    catch_unwind(AssertUnwindSafe(f)).map_err(|_| ())
}

pub fn small_alpha(w: u32) -> Vec<u128> {
    let m = mask(w);
    let mut a = core4(w);
    a.push(1 & m);
    a.push((1u128 << (w - 1)) & m);
    a.push(0x0123_4567_89AB_CDEF_FEDC_BA98_7654_3210u128 & m);
    dedup_keep_order(a)
}

pub fn values_for(f: &FieldSpec, which: &str, full_w: u32) -> Vec<u128> {
    if f.discs.is_some() && (f.kind == "e" || f.kind == "o") {
        return value_alpha(f, 0);
    }
    match which {
        "full" => value_alpha(f, full_w),
        "alpha" => value_alpha(f, 0),
        "core4" => core4(f.w),
        _ => small_alpha(f.w),
    }
}

impl Product {
    pub fn new(m: &'static dyn Machine, ms: &'static MachineSpec, full_n: u32, values: &str, full_w: u32, max_depth: u8) -> Product {
        let init: Vec<u128> = if ms.n <= full_n { (0..(1u128 << ms.n)).collect() } else { state_alpha(ms.n, &ms.fields) };
        let mut acts = Vec::new();
        let mut pos = Vec::new();
        for (fi, f) in ms.fields.iter().enumerate() {
            let cnt = f.arr.map_or(1, |a| a.0);
            pos.push((0..cnt).map(|i| positions(f, i)).collect::<Vec<_>>());
            if !f.writable {
                continue;
            }
            let vals = values_for(f, values, full_w);
            for idx in 0..cnt {
                for &v in &vals {
                    for set in [false, true] {
                        acts.push(Act::Put { f: fi, idx, v, set });
                    }
                }
            }
        }
        let mut build_args = Vec::new();
        if ms.has_builder {
            // diagonal argument tuples over the per-field small alphabets
            let mut per: Vec<Vec<u128>> = Vec::new();
            for f in ms.fields.iter().filter(|f| f.writable) {
                let vals = values_for(f, "small", 0);
                for _ in 0..f.arr.map_or(1, |a| a.0) {
                    per.push(vals.clone());
                }
            }
            let maxlen = per.iter().map(|v| v.len()).max().unwrap_or(1);
            for j in 0..maxlen.max(1) {
                build_args.push(per.iter().enumerate().map(|(i, v)| v[(j + i) % v.len()]).collect());
                build_args.push(per.iter().map(|v| v[j % v.len()]).collect());
            }
            build_args.dedup();
            for i in 0..build_args.len() {
                acts.push(Act::Build(i));
            }
        }
        Product {
            m,
            ms,
            init,
            acts,
            build_args,
            max_depth,
            counters: Arc::new(Counters::default()),
            pos,
            arbitrary_base: ![8, 16, 32, 64, 128].contains(&ms.n),
        }
    }

    fn shadow_build(&self, args: &[u128]) -> u128 {
        let mut s = self.ms.default.map_or(0, |h| h.0);
        let mut k = 0;
        for (fi, f) in self.ms.fields.iter().enumerate() {
            if !f.writable {
                continue;
            }
            for idx in 0..f.arr.map_or(1, |a| a.0) {
                s = ref_put(s, &self.pos[fi][idx], args[k]);
                k += 1;
            }
        }
        s
    }

    /// (what, extra steps, expected, observed) for the first failing observation of property `p` in `st`
    pub fn explain(&self, p: &str, st: &PState) -> Option<(String, Vec<Step>, Expect, String)> {
        let (m, ms) = (self.m, self.ms);
        if st.panicked {
            return if p == "no_panic" {
                Some(("panic".into(), vec![], Expect { kind: "nopanic".into(), value: H(0), text: String::new() }, "Panicked".into()))
            } else {
                None
            };
        }
        let c = &self.counters;
        match p {
            "no_panic" => None,
            "raw_is_shadow" => {
                c.transitions.fetch_add(1, Ordering::Relaxed);
                c.compared.fetch_add(1, Ordering::Relaxed);
                match call(|| m.raw(st.obj)) {
                    Ok(r) if r == st.shadow && r <= mask(ms.n) => None,
                    Ok(r) => Some(("raw".into(), vec![Step::op("raw", 0, 0, 0)], expect_value(st.shadow), format!("{r:#x}"))),
                    Err(_) => Some(("raw_panic".into(), vec![Step::op("raw", 0, 0, 0)], expect_value(st.shadow), "Panicked".into())),
                }
            }
            "getters_are_shadow" => {
                for (fi, f) in ms.fields.iter().enumerate() {
                    if !f.readable {
                        continue;
                    }
                    for idx in 0..f.arr.map_or(1, |a| a.0) {
                        c.transitions.fetch_add(1, Ordering::Relaxed);
                        c.compared.fetch_add(1, Ordering::Relaxed);
                        let e = encode_get(f, ref_get(st.shadow, &self.pos[fi][idx]));
                        match call(|| m.get(st.obj, fi, idx)) {
                            Ok(g) if g == e => {}
                            Ok(g) => return Some(("get".into(), vec![Step::op("get", fi, idx, 0)], expect_value(e), format!("{g:#x}"))),
                            Err(_) => return Some(("get_panic".into(), vec![Step::op("get", fi, idx, 0)], expect_value(e), "Panicked".into())),
                        }
                    }
                }
                None
            }
            "rewrap_indistinguishable" => {
                // new_with_raw_value(x.raw_value()) must be indistinguishable from x: through every getter,
                // and through the derives users put on the struct (PartialEq/Hash/Debug see the storage integer)
                c.transitions.fetch_add(2, Ordering::Relaxed);
                let re = match call(|| m.init(m.raw(st.obj))) {
                    Ok(x) => x,
                    Err(_) => return Some(("raw_panic".into(), vec![Step::op("rewrap", 0, 0, 0)], Expect { kind: "nopanic".into(), value: H(0), text: String::new() }, "Panicked".into())),
                };
                for (fi, f) in ms.fields.iter().enumerate() {
                    if !f.readable {
                        continue;
                    }
                    for idx in 0..f.arr.map_or(1, |a| a.0) {
                        c.transitions.fetch_add(2, Ordering::Relaxed);
                        c.compared.fetch_add(1, Ordering::Relaxed);
                        let a = call(|| m.get(st.obj, fi, idx));
                        let b = call(|| m.get(re, fi, idx));
                        if a != b {
                            let e = encode_get(f, ref_get(st.shadow, &self.pos[fi][idx]));
                            return if b != Ok(e) {
                                Some(("hidden_state".into(), vec![Step::op("rewrap", 0, 0, 0), Step::op("get", fi, idx, 0)], expect_value(e), format!("{b:x?}")))
                            } else {
                                Some(("hidden_state".into(), vec![Step::op("get", fi, idx, 0)], expect_value(e), format!("{a:x?}")))
                            };
                        }
                    }
                }
                c.compared.fetch_add(1, Ordering::Relaxed);
                if re != st.obj {
                    return Some(("hidden_storage".into(), vec![Step::op("storage_eq_rewrap", 0, 0, 0)], expect_value(1), "0x0".into()));
                }
                None
            }
            _ => None,
        }
    }
}

impl Model for Product {
    type State = PState;
    type Action = Act;

    fn init_states(&self) -> Vec<PState> {
        self.init
            .iter()
            .map(|&x| {
                self.counters.transitions.fetch_add(1, Ordering::Relaxed);
                match call(|| self.m.init(x)) {
                    Ok(o) => PState { obj: o, shadow: x, depth: 0, panicked: false },
                    Err(_) => PState { obj: 0, shadow: x, depth: 0, panicked: true },
                }
            })
            .collect()
    }

    fn actions(&self, state: &PState, actions: &mut Vec<Act>) {
        if state.panicked || (self.max_depth > 0 && state.depth >= self.max_depth) {
            return;
        }
        actions.extend(self.acts.iter().cloned());
    }

    fn next_state(&self, s: &PState, a: Act) -> Option<PState> {
        self.counters.transitions.fetch_add(1, Ordering::Relaxed);
        // with max_depth == 0 (fixed point over all states) depth is not part of the exploration
        let depth = if self.max_depth == 0 { 0 } else { s.depth + 1 };
        match a {
            Act::Put { f, idx, v, set } => {
                let shadow = ref_put(s.shadow, &self.pos[f][idx], v);
                let r = if set { call(|| self.m.set(s.obj, f, idx, v)) } else { call(|| self.m.with(s.obj, f, idx, v)) };
                Some(match r {
                    Ok(o) => PState { obj: o, shadow, depth, panicked: false },
                    Err(_) => PState { obj: 0, shadow, depth, panicked: true },
                })
            }
            Act::Build(i) => {
                let args = &self.build_args[i];
                let shadow = self.shadow_build(args);
                Some(match call(|| self.m.build(args)) {
                    Ok(Some(o)) => PState { obj: o, shadow, depth, panicked: false },
                    _ => PState { obj: 0, shadow, depth, panicked: true },
                })
            }
        }
    }

    fn properties(&self) -> Vec<Property<Self>> {
        vec![
            Property::always("no_panic", |m: &Product, s: &PState| m.explain("no_panic", s).is_none()),
            Property::always("raw_is_shadow", |m: &Product, s: &PState| m.explain("raw_is_shadow", s).is_none()),
            Property::always("getters_are_shadow", |m: &Product, s: &PState| m.explain("getters_are_shadow", s).is_none()),
            Property::always("rewrap_indistinguishable", |m: &Product, s: &PState| m.explain("rewrap_indistinguishable", s).is_none()),
        ]
    }
}

pub struct ProductCfg {
    pub full_n: u32,
    pub values: String,
    pub full_w: u32,
    pub depth: u8,
    pub threads: usize,
    /// which properties count as violations for the calling check ("" = all)
    pub props: String,
}

pub fn product(machines: &[(&'static dyn Machine, &'static MachineSpec)], cfg: &ProductCfg) -> Report {
    let start = Instant::now();
    let mut rep = Report { mode: format!("product:stateright:depth{}:{}", cfg.depth, cfg.values), exhaustive: true, closed: Some(true), ..Default::default() };
    let mut per = Vec::new();
    for &(m, ms) in machines {
        let t0 = Instant::now();
        let model = Product::new(m, ms, cfg.full_n, &cfg.values, cfg.full_w, cfg.depth);
        let counters = model.counters.clone();
        let n_init = model.init.len();
        let n_acts = model.acts.len();
        let fixed_point = cfg.depth == 0;
        let checker = model.checker().threads(cfg.threads.max(1)).spawn_bfs().join();
        let unique = checker.unique_state_count() as u64;
        let generated = checker.state_count() as u64;
        let disc = checker.discoveries();
        rep.machines += 1;
        rep.fields += ms.fields.len() as u64;
        rep.states += unique;
        rep.transitions += counters.transitions.load(Ordering::Relaxed);
        rep.compared += counters.compared.load(Ordering::Relaxed);
        rep.distinct_outcomes += unique;
        {
            let fam = rep.per_family.entry(ms.family.clone()).or_default();
            fam.fields += ms.fields.len() as u64;
            fam.states += unique;
            fam.transitions += counters.transitions.load(Ordering::Relaxed);
        }
        let mut closed = true;
        if fixed_point {
            // all 2^N states were initial; closure = no state outside the initial set was generated
            closed = unique == n_init as u64 && disc.is_empty();
            if ms.n <= cfg.full_n && unique != (1u64 << ms.n) {
                closed = false;
            }
        }
        if !closed {
            rep.closed = Some(false);
        }
        let model = checker.model();
        for (name, path) in disc {
            if !cfg.props.is_empty() && !cfg.props.split(',').any(|p| p == name) {
                continue;
            }
            rep.per_family.entry(ms.family.clone()).or_default().violations += 1;
            rep.violation_count += 1;
            let pv = path.into_vec();
            let first = &pv[0].0;
            let mut trace = vec![Step::init(first.shadow)];
            for (_, a) in &pv {
                match a {
                    Some(Act::Put { f, idx, v, set }) => trace.push(Step::op(if *set { "set" } else { "with" }, *f, *idx, *v)),
                    Some(Act::Build(i)) => trace.push(Step { op: "build".into(), f: 0, idx: 0, v: H(0), args: model.build_args[*i].iter().map(|&x| H(x)).collect() }),
                    None => {}
                }
            }
            let last = &pv[pv.len() - 1].0;
            if let Some((what, extra, expect, observed)) = model.explain(name, last) {
                trace.extend(extra);
                let mut v = Violation::new(&what, ms, None, trace, expect, observed);
                v.family = format!("{}:{}", ms.family, name);
                // keep the whole layout: a product trace may touch several fields and needs every getter
                v.spec = ms.clone();
                v.field_text = ms.fields.iter().map(|f| f.text.clone()).collect::<Vec<_>>().join(", ");
                if rep.violations.len() < 40 {
                    rep.violations.push(v);
                }
            } else {
                rep.notes.push(format!("discovery {name} on {} did not re-explain (nondeterminism?)", ms.name));
                rep.extra.insert("nondeterministic".into(), serde_json::json!(true));
            }
        }
        per.push(serde_json::json!({
            "machine": ms.name, "head": ms.head, "n": ms.n, "initial_states": n_init, "actions_per_state": n_acts,
            "unique_states": unique, "generated_states": generated, "max_depth": checker.max_depth(),
            "closed": if fixed_point { serde_json::json!(closed) } else { serde_json::Value::Null },
            "wall_s": t0.elapsed().as_secs_f64(),
        }));
        if rep.samples.len() < 4 {
            rep.samples.push(serde_json::json!({
                "decl": format!("{} {{ {} }}", ms.head, ms.fields.iter().map(|f| f.text.clone()).collect::<Vec<_>>().join(", ")),
                "initial_states": n_init, "actions_per_state": n_acts, "unique_states": unique, "depth_bound": cfg.depth,
            }));
        }
    }
    if cfg.depth != 0 {
        rep.closed = None;
    }
    rep.extra.insert("per_machine".into(), serde_json::json!(per));
    rep.wall_s = start.elapsed().as_secs_f64();
    rep
}
