#!/usr/bin/env python3
"""Automated mutation campaign against the checks (a blind-spot finder, not a registered check).

Stage 1: generate single-token mutants of the macro sources, keep those that compile and pass the repository's
         128 tests (run in scratch clones, several in parallel).
Stage 2: run the relevant quick checks against each surviving mutant (VERIF_REPO = scratch clone, own work/target
         dirs) and record which check reports a VIOLATION.
Results: /verif/mutcampaign-results.json (survivors of BOTH the repo suite and the checks need manual triage:
         equivalent mutant or blind spot)."""
import json, os, re, shutil, subprocess, sys, time, hashlib
from concurrent.futures import ThreadPoolExecutor

ROOT = os.path.dirname(os.path.dirname(os.path.abspath(__file__)))
SCR = os.environ.get("MUT_DIR", "/tmp/verif-mut")
FILES = {
    "bitbybit/src/bitfield/codegen.rs": ["C02", "C08", "C13", "C12", "C14", "C16x", "C15"],
    "bitbybit/src/bitfield/parsing.rs": ["C09", "C17", "C02", "C08", "C14"],
    "bitbybit/src/bitfield/mod.rs": ["C06", "C19", "C15", "C18", "C11", "C09"],
    "bitbybit/src/bitenum.rs": ["C07", "C10", "C15"],
    "bitbybit/src/bit_size.rs": ["C07", "C10"],
}

OPS = [
    (r"<=", "<"), (r"(?<![<>=!])<(?![<=])", "<="), (r">=", ">"), (r"(?<![<>=\-])>(?![>=])", ">="),
    (r"==", "!="), (r"!=", "=="), (r"&&", "||"), (r"\|\|", "&&"),
    (r" \+ ", " - "), (r" - ", " + "), (r"<<", ">>"), (r">>", "<<"),
    (r"(?<![|])\|(?![|])", "&"), (r"(?<![&])&(?![&])(?=\s)", "|"),
    (r"\.internal\b", ".exposed"), (r"\.exposed\b", ".internal"),
    (r"\btrue\b", "false"), (r"\bfalse\b", "true"),
    (r"\.start\b", ".end"), (r"\.end\b", ".start"),
    (r"\bis_some\(\)", "is_none()"), (r"\bis_none\(\)", "is_some()"),
    (r"!\(", "("),
]
INT = re.compile(r"(?<![\w.#\"'])(\d+)(?![\w.\"'])")


def mutants_of(path, text):
    lines = text.split("\n")
    out = []
    in_test = False
    for ln, line in enumerate(lines):
        s = line.strip()
        if s.startswith("//") or s.startswith("#[") or s.startswith("use ") or not s:
            continue
        if "format!(" in line or "write!(" in line or "panic!(" in line or s.startswith('"') or "Error::new" in line and '"' in line:
            continue
        # do not touch string literals: mask them
        masked = re.sub(r'"(?:[^"\\]|\\.)*"', lambda m: '"' + "_" * (len(m.group(0)) - 2) + '"', line)
        for pat, rep in OPS:
            for m in re.finditer(pat, masked):
                new = line[:m.start()] + rep + line[m.end():]
                if new != line:
                    out.append((ln, line, new, f"{pat} -> {rep}"))
        for m in INT.finditer(masked):
            v = int(m.group(1))
            if v > 200:
                continue
            for nv in ({v + 1, v - 1} - {-1}):
                new = line[:m.start(1)] + str(nv) + line[m.end(1):]
                out.append((ln, line, new, f"{v} -> {nv}"))
    if os.environ.get("MUT_OPS") == "v3":
        # the lines the first campaign skipped because they contain format!(): code-generating format strings
        # (literal suffixes, extract_u<W>, arbitrary_int::u<N>, Partial<..>, mask literals); error messages stay excluded
        out = []
        swaps = [("internal", "exposed"), ("exposed", "internal"), ("total_number_bits", "number_of_bits"), ("running_mask", "previous_mask"),
                 ("running_mask", "field_mask")]
        for ln, line in enumerate(lines):
            if "format!(" not in line or "bitfield!" in line or "Error" in line or "panic!" in line or "comment" in line or "warning" in line:
                continue
            masked = re.sub(r'"(?:[^"\\]|\\.)*"', lambda m: '"' + "_" * (len(m.group(0)) - 2) + '"', line)
            for a, b in swaps:
                for m in re.finditer(r"\b" + a + r"\b", masked):
                    out.append((ln, line, line[:m.start()] + b + line[m.end():], f"{a} -> {b}"))
            # the width inside the format string itself: u{} -> i{}, extract_u{} -> extract_i{} make no sense; instead perturb the argument
            m = re.search(r"format!\((\"[^\"]*\"), ([^)]+)\)", line)
            if m:
                arg = m.group(2).strip()
                for rep in (f"{arg} + 1", f"{arg} - 1", f"{arg} * 2", f"{arg} / 2"):
                    out.append((ln, line, line[:m.start(2)] + rep + line[m.end(2):], f"{arg} -> {rep}"))
    if os.environ.get("MUT_OPS") == "v2":
        out = []
        groups = [["#lowest_bit", "#number_of_bits", "#shift_left", "#shift_right", "#indexed_stride", "#indexed_count"],
                  ["lowest_bit", "number_of_bits", "total_number_bits"], ["range.start", "range.end"], ["array_stride", "array_count"],
                  ["previous_mask", "running_mask", "field_mask"], ["provide_getter", "provide_setter"], ["max_discr", "max_count"],
                  ["lower", "upper"], ["getter_type", "setter_type"], ["internal", "exposed"]]
        for ln, line in enumerate(lines):
            s = line.strip()
            if s.startswith("//") or s.startswith("#[") or s.startswith("use ") or not s or s in ("{", "}", "};", "})", "});", "),", ")"):
                continue
            if "format!(" in line or "write!(" in line or s.startswith('"'):
                continue
            # statement / line deletion
            if (s.endswith(";") or s.endswith(",")) and not s.startswith("pub ") and not s.startswith("let "):
                out.append((ln, line, "", "delete line"))
            # identifier swaps within a group of same-typed names
            for g in groups:
                for a in g:
                    if not re.search(r"(?<![\w#])" + re.escape(a) + r"(?![\w])", line):
                        continue
                    for b in g:
                        if a == b:
                            continue
                        new = re.sub(r"(?<![\w#])" + re.escape(a) + r"(?![\w])", b, line, count=1)
                        if new != line:
                            out.append((ln, line, new, f"{a} -> {b}"))
            # drop a cast / a negation / a shift term inside templates
            for pat, rep, what in ((r" as #unsigned_field_type", "", "drop unsigned cast"), (r"\.value\(\)", "", "drop .value()"),
                                   (r"!\(", "(", "drop !"), (r" #array_shift", "", "drop array shift"), (r"\(index \* #indexed_stride\)", "0", "drop index*stride")):
                for m in re.finditer(pat, line):
                    out.append((ln, line, line[:m.start()] + rep + line[m.end():], what))
    res = []
    seen = set()
    for ln, old, new, what in out:
        k = (ln, new)
        if k in seen:
            continue
        seen.add(k)
        res.append({"file": path, "line": ln + 1, "old": old.strip(), "new": new.strip(), "op": what, "_new_line": new})
    return res


def sh(cmd, cwd=None, env=None, timeout=1800):
    try:
        p = subprocess.run(cmd, cwd=cwd, env=env, capture_output=True, text=True, timeout=timeout, shell=isinstance(cmd, str))
        return p.returncode, p.stdout + p.stderr
    except subprocess.TimeoutExpired:
        return 124, "timeout"


def stage1(m, slot):
    """apply in clone `slot`, build + run the repository suite"""
    clone = os.path.join(SCR, f"clone{slot}")
    if not os.path.isdir(clone):
        sh(["git", "clone", "-q", "--no-hardlinks", "/repo", clone])
    sh(["git", "checkout", "-q", "--", "."], cwd=clone)
    p = os.path.join(clone, m["file"])
    lines = open(p).read().split("\n")
    lines[m["line"] - 1] = m["_new_line"]
    open(p, "w").write("\n".join(lines))
    env = dict(os.environ, CARGO_NET_OFFLINE="true", CARGO_TARGET_DIR=os.path.join(SCR, f"target{slot}"))
    rc, out = sh("cargo test --workspace --offline 2>&1", cwd=clone, env=env, timeout=600)
    sh(["git", "checkout", "-q", "--", "."], cwd=clone)
    if "test result: ok. 128 passed; 0 failed" in out and rc == 0:
        return "survives_suite"
    if "error" in out and "test result" not in out:
        return "does_not_compile"
    return "killed_by_suite"


def main():
    os.makedirs(SCR, exist_ok=True)
    res_path = os.path.join(ROOT, {"v2": "mutcampaign2-results.json", "v3": "mutcampaign3-results.json"}.get(os.environ.get("MUT_OPS"), "mutcampaign-results.json"))
    done = {}
    if os.path.exists(res_path):
        for r in json.load(open(res_path))["mutants"]:
            done[r["id"]] = r
    allm = []
    for f in FILES:
        text = open(os.path.join("/repo", f)).read()
        allm += mutants_of(f, text)
    for m in allm:
        m["id"] = hashlib.sha1(f"{m['file']}:{m['line']}:{m['new']}".encode()).hexdigest()[:10]
    limit = int(os.environ.get("MUT_LIMIT", "100000"))
    allm = allm[:limit]
    print(f"{len(allm)} mutants generated", flush=True)
    todo = [m for m in allm if m["id"] not in done]
    # ---- stage 1, 4 in parallel -----------------------------------------------------------------------
    NPAR = 4
    slots = list(range(NPAR))

    def run1(args):
        i, m = args
        st = stage1(m, i % NPAR)
        return m, st
    # keep slot affinity: chunk by slot
    chunks = [[] for _ in range(NPAR)]
    for i, m in enumerate(todo):
        chunks[i % NPAR].append(m)

    def run_chunk(ci):
        out = []
        for m in chunks[ci]:
            out.append((m, stage1(m, ci)))
            if len(out) % 20 == 0:
                print(f"stage1 slot {ci}: {len(out)}/{len(chunks[ci])}", flush=True)
        return out
    stage1_res = []
    with ThreadPoolExecutor(NPAR) as ex:
        for part in ex.map(run_chunk, range(NPAR)):
            stage1_res += part
    for m, st in stage1_res:
        r = {k: v for k, v in m.items() if not k.startswith("_")}
        r["stage1"] = st
        r["_new_line"] = m["_new_line"]
        done[m["id"]] = r
    save(res_path, done)
    surv = [r for r in done.values() if r["stage1"] == "survives_suite" and "checks" not in r]
    print(f"stage 1 done: {sum(1 for r in done.values() if r['stage1'] == 'survives_suite')} survive the repository suite; {len(surv)} to check", flush=True)
    # ---- stage 2, sequential (each check uses all cores) -----------------------------------------------
    clone = os.path.join(SCR, "clone_s2")
    if not os.path.isdir(clone):
        sh(["git", "clone", "-q", "--no-hardlinks", "/repo", clone])
    env = dict(os.environ, VERIF_WORK=os.path.join(SCR, "work"), VERIF_TARGET=os.path.join(SCR, "vtarget"), VERIF_NOLOCK="1",
               VERIF_EVIDENCE=os.path.join(SCR, "evidence"), VERIF_REPLAYS=os.path.join(SCR, "replays"), VERIF_REPO=clone, CARGO_NET_OFFLINE="true")
    for k, r in enumerate(surv):
        sh(["git", "checkout", "-q", "--", "."], cwd=clone)
        p = os.path.join(clone, r["file"])
        lines = open(p).read().split("\n")
        lines[r["line"] - 1] = r["_new_line"]
        open(p, "w").write("\n".join(lines))
        r["checks"] = {}
        t0 = time.time()
        for pid in FILES[r["file"]]:
            if pid == "C16x":
                continue
            rc, out = sh([os.path.join(ROOT, "check"), pid, "quick"], env=env, timeout=1200)
            r["checks"][pid] = rc
            if rc == 1:
                r["killed_by"] = pid
                first = [l.strip() for l in out.splitlines() if l.startswith("  ")]
                r["first_violation"] = first[0][:300] if first else ""
                break
        r["wall_s"] = round(time.time() - t0, 1)
        if "killed_by" not in r:
            # last resort: every remaining check
            for pid in [f"C{i:02d}" for i in range(1, 20)]:
                if pid in r["checks"] or pid == "C16":
                    continue
                rc, out = sh([os.path.join(ROOT, "check"), pid, "quick"], env=env, timeout=1200)
                r["checks"][pid] = rc
                if rc == 1:
                    r["killed_by"] = pid
                    first = [l.strip() for l in out.splitlines() if l.startswith("  ")]
                    r["first_violation"] = first[0][:300] if first else ""
                    break
        r["wall_s"] = round(time.time() - t0, 1)
        print(f"[{k + 1}/{len(surv)}] {r['file'].split('/')[-1]}:{r['line']} {r['op']} :: {r['old'][:70]} -> killed_by={r.get('killed_by')} ({r['wall_s']}s)", flush=True)
        save(res_path, done)
    sh(["git", "checkout", "-q", "--", "."], cwd=clone)
    save(res_path, done)
    alive = [r for r in done.values() if r["stage1"] == "survives_suite" and "checks" in r and "killed_by" not in r]
    print(f"campaign done: {len(alive)} mutants survive both the repository suite and the checks (triage needed)")


def save(path, done):
    ms = []
    for r in done.values():
        ms.append(dict(r))
    with open(path + ".tmp", "w") as fh:
        json.dump({"mutants": ms}, fh, indent=1)
    os.replace(path + ".tmp", path)


if __name__ == "__main__":
    main()
