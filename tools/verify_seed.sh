#!/bin/bash
# verify_seed.sh <seed-dir containing patch.diff demo.rs meta.json> <name>
# confirms in a scratch worktree: suite passes with the patch, demo fails with it and passes without it.
set -u
SRC="$1"; NAME="$2"
WT=/tmp/vseed-$NAME
export CARGO_NET_OFFLINE=true CARGO_TARGET_DIR=$WT/target
git -C /repo worktree remove --force $WT >/dev/null 2>&1
git -C /repo worktree add -q --detach $WT HEAD || exit 2
cd $WT
mkdir -p bitbybit-tests/tests
cp "$SRC/demo.rs" bitbybit-tests/tests/demo.rs
base=$(cargo test --offline -p bitbybit-tests --test demo 2>&1 | grep -E "^test result|^error" | head -1)
rm -rf bitbybit-tests/tests
git apply "$SRC/patch.diff" || { echo "PATCH DOES NOT APPLY"; exit 2; }
suite=$(cargo test --workspace --offline 2>&1 | grep -E "^test result: .* 128 passed|^test result: FAILED|^error" | head -1)
mkdir -p bitbybit-tests/tests
cp "$SRC/demo.rs" bitbybit-tests/tests/demo.rs
mut=$(cargo test --offline -p bitbybit-tests --test demo 2>&1 | grep -E "^test result|^error" | head -1)
echo "$NAME: demo-on-base=[$base] suite-with-patch=[$suite] demo-with-patch=[$mut]"
cd /; git -C /repo worktree remove --force $WT
