#!/bin/bash
# accept_seed.sh <worktree dir with SEED/> <name e.g. C19-c> <check ids...>
# verifies the seed in a scratch worktree, stores it under /verif/seeded/<name>, removes the agent's worktree, runs the checks against it
W="$1"; NAME="$2"; shift 2
cd /verif
res=$(tools/verify_seed.sh $W/SEED $NAME 2>&1 | tail -1)
echo "$res" | cut -c1-400
d=seeded/$NAME; mkdir -p $d; cp $W/SEED/patch.diff $W/SEED/demo.rs $d/
python3 - "$W" "$d" "$res" <<'PY'
import json,sys
w,d,res=sys.argv[1:4]
m=json.load(open(w+'/SEED/meta.json'))
m['origin']='independent sub-agent (later round, with a diversity constraint) given only the property text and a scratch worktree'
m['confirmed_by_me']=['tools/verify_seed.sh: '+res[:600]]
json.dump(m,open(d+'/meta.json','w'),indent=1)
PY
git -C /repo worktree remove --force $W
tools/try_patch.sh $d/patch.diff "$@" | grep -E "^==|VIOLATION|MACHINERY|^  " | head -8
