#!/bin/bash
# run_all.sh [quick|thorough] — every registered check once, sequentially
cd "$(dirname "$0")/.."
T=${1:-quick}
for i in 01 02 03 04 05 06 07 08 09 10 11 12 13 14 15 16 17 18 19; do
  s=$(date +%s); out=$(./check C$i $T 2>&1); rc=$?; e=$(date +%s)
  echo "C$i rc=$rc $((e-s))s :: $(echo "$out" | tail -1)"
  echo "$out" | grep -E "VIOLATION|KNOWN-FINDING|MACHINERY" | head -3
done
