#!/bin/bash
# try_patch.sh <patch.diff> <check ids...>  — apply a seeded change to /repo, run quick checks, undo it.
P="$(realpath "$1")"; shift
cd /verif
git -C /repo apply "$P" || { echo "patch does not apply"; exit 2; }
trap 'git -C /repo checkout -- . ' EXIT
for c in "$@"; do
  out=$(./check $c ${TIER:-quick} 2>&1); rc=$?
  echo "== $c rc=$rc"; echo "$out" | grep -E "VIOLATION|KNOWN|MACHINERY|^C[0-9]+ " | head -4; echo "$out" | grep -A1 VIOLATION | grep -v VIOLATION | head -2
done
