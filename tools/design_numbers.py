#!/usr/bin/env python3
"""Rewrite the third column (states / transitions / wall) of the table in DESIGN.md 13.2 from the evidence files of the last quick runs."""
import json, re, os
root = os.path.dirname(os.path.dirname(os.path.abspath(__file__)))
p = os.path.join(root, "DESIGN.md")
lines = open(p).read().split("\n")
start = next(i for i, l in enumerate(lines) if l.startswith("### 13.2"))
end = next(i for i, l in enumerate(lines) if l.startswith("### 13.3"))


def fmt(x):
    if x < 100000:
        return f"{x:,}".replace(",", " ")
    m, e = f"{x:.1e}".split("e")
    return f"{m}e{int(e)}"


for i in range(start, end):
    m = re.match(r"^\| (C\d\d) \| (.*) \| ([^|]*) \|$", lines[i])
    if not m:
        continue
    ev = json.load(open(os.path.join(root, "evidence", m.group(1) + ".json")))
    if ev.get("tier") != "quick":
        raise SystemExit(f"{m.group(1)}: evidence is not from a quick run")
    c = ev["coverage"]
    lines[i] = f"| {m.group(1)} | {m.group(2)} | {fmt(c['states'])} / {fmt(c['transitions'])} / {ev['wall_s']:.0f} s |"
open(p, "w").write("\n".join(lines))
print("13.2 numbers refreshed")
