#!/bin/bash
for m in "$@"; do
  rm -rf /root/scratch/mrepo && cp -r /repo /root/scratch/mrepo && rm -rf /root/scratch/mrepo/target
  cd /root/scratch/mrepo && git apply /root/scratch/fixes.patch
  if ! PYTHONPATH=/root/scratch/muts python3 /root/scratch/muts/$m.py; then echo "$m: PATCH FAILED"; continue; fi
  res=$(CARGO_TARGET_DIR=/root/scratch/target-m CARGO_NET_OFFLINE=true cargo test --workspace --offline 2>&1 | grep -E "^test result: .* 128 passed|^test result: FAILED|^error" | head -2 | tr '\n' ' ')
  echo "$m: $res"
done
