import itertools, json, subprocess, sys, os, collections
from concurrent.futures import ThreadPoolExecutor
SO=sys.argv[1]; RL=sys.argv[2]; DEPS=os.path.dirname(SO)
NATIVE=(8,16,32,64,128)
def tyw(t):
    if t=='bool': return 'bool'
    return int(t[1:])
def valid(N, form, ranges, ty, K, stride):
    # ranges list of (lo,hi); form 'bit' or 'bits'
    for lo,hi in ranges:
        if lo>hi: return False
    n=sum(hi-lo+1 for lo,hi in ranges)
    if ty=='bool':
        if not (n==1 and len(ranges)==1): return False
    else:
        if tyw(ty)!=n: return False
        w=tyw(ty)
        if ty[0]=='i' and w not in NATIVE: return False
        if not (1<=w<=128): return False
    top=max(hi for lo,hi in ranges)
    if K is not None:
        if K<2: return False
        if len(ranges)==1:
            s = stride if stride is not None else n
            if s<n: return False
        else:
            if stride is None: return False
            s=stride
        top += (K-1)*s
    if top>=N: return False
    return True
decls=[]
def emit(N, form, ranges, ty, K, stride):
    if len(ranges)==1:
        lo,hi=ranges[0]
        a = f'bit({lo}' if form=='bit' else f'bits({lo}..={hi}'
    else:
        a='bits(['+', '.join((f'{lo}' if lo==hi and form=='bit' else f'{lo}..={hi}') for lo,hi in ranges)+']'
    a+=', rw'
    if stride is not None: a+=f', stride = {stride}'
    a+=')'
    t=ty if K is None else f'[{ty}; {K}]'
    return f'#[bitfield(u{N})] pub struct S {{ #[{a}] x: {t} }}'
for N in (3,6,8):
    for lo in range(0,N+2):
        for hi in range(0,N+2):
            w=hi-lo+1
            forms=['bits']+(['bit'] if lo==hi else [])
            tys=set(['bool'])
            for ww in (w-1,w,w+1):
                if 1<=ww<=12: tys.add(f'u{ww}')
            if w==8: tys.add('i8')
            if w<1: tys|={'u1','u2'}
            for form in forms:
                for ty in sorted(tys):
                    for K in (None,1,2,3):
                        strides=[None] if K is None else [None]+sorted(set(s for s in (w-1,w,w+1,N) if s>=1))
                        for st in strides:
                            decls.append((N,form,[(lo,hi)],ty,K,st))
    # two-range lists (disjoint only)
    pts=[0,1,N//2,N-2,N-1,N]
    rs=[(a,b) for a in pts for b in pts if a<=b]
    for r1 in rs:
        for r2 in rs:
            if not (r1[1]<r2[0] or r2[1]<r1[0]): continue
            n=r1[1]-r1[0]+1+r2[1]-r2[0]+1
            for ty in (f'u{n}', f'u{n+1}'):
                for K in (None,2):
                    for st in ([None] if K is None else [None,1,n,n+1]):
                        decls.append((N,'bits',[r1,r2],ty,K,st))
print(len(decls),'declarations')
def run_chunk(idx, chunk):
    lines=['#![allow(dead_code,unused_imports,unused_variables,unused_mut,non_camel_case_types)]','use bitbybit::bitfield;','use arbitrary_int::*;']
    lmap={}
    for j,d in chunk:
        lines.append(f'mod m{j} {{ use super::*; {emit(*d)}')
        lmap[len(lines)]=j
        lines.append('}')
    fn=f'chunk{idx}.rs'
    open(fn,'w').write('\n'.join(lines)+'\n')
    p=subprocess.run(['rustc','--edition','2021','--crate-type','lib','--emit=metadata','--error-format=json','-o',f'chunk{idx}.rmeta','-L',f'dependency={DEPS}','--extern',f'bitbybit={SO}','--extern',f'arbitrary_int={RL}',fn],capture_output=True,text=True)
    rej={}
    for l in p.stderr.splitlines():
        try: d=json.loads(l)
        except: continue
        if d.get('level')!='error': continue
        for s in d['spans']:
            if s['is_primary'] and s['file_name']==fn and s['line_start'] in lmap:
                rej.setdefault(lmap[s['line_start']], d['message'][:90])
    return rej
chunks=[[] for _ in range(32)]
for j,d in enumerate(decls): chunks[j%32].append((j,d))
rej={}
with ThreadPoolExecutor(16) as ex:
    for r in ex.map(lambda a: run_chunk(*a), enumerate(chunks)): rej.update(r)
dis=collections.Counter(); ex_=[]
for j,d in enumerate(decls):
    v=valid(*d); acc = j not in rej
    if v!=acc:
        key=('valid-but-rejected' if v else 'invalid-but-accepted')
        dis[key]+=1
        if len(ex_)<40: ex_.append((key, emit(*d), rej.get(j)))
print('accepted',len(decls)-len(rej),'rejected',len(rej),'disagreements',dict(dis))
for e in ex_: print(e)
