mod gen;
pub struct F { pub ranges: Vec<(u32,u32)>, pub arr: Option<(usize,usize)>, pub kind: char }
pub trait Machine: Sync + Send {
  fn name(&self)->&'static str; fn n(&self)->u32; fn fields(&self)->Vec<F>;
  fn raw(&self,s:u128)->u128;
  fn get(&self,s:u128,f:usize,idx:usize)->u128;
  fn with(&self,s:u128,f:usize,idx:usize,v:u128)->u128;
  fn set(&self,s:u128,f:usize,idx:usize,v:u128)->u128;
}
fn mask(w:u32)->u128{ if w>=128 {u128::MAX} else {(1u128<<w)-1} }
fn positions(f:&F, idx:usize)->Vec<u32>{ let sh=f.arr.map_or(0,|(_,st)| idx*st) as u32; let mut p=vec![]; for &(lo,l) in &f.ranges { for k in 0..l { p.push(lo+k+sh); } } p }
fn ref_get(s:u128,p:&[u32])->u128{ let mut o=0; for (k,&b) in p.iter().enumerate(){ o|=((s>>b)&1)<<k; } o }
fn ref_with(s:u128,p:&[u32],v:u128)->u128{ let mut o=s; for (k,&b) in p.iter().enumerate(){ o=(o&!(1u128<<b))|(((v>>k)&1)<<b); } o }
fn alpha(n:u32)->Vec<u128>{ let m=mask(n); let mut a=vec![0,m]; for k in 0..n { a.push(1u128<<k); a.push(m&!(1u128<<k)); } a.push(0xAAAAAAAAAAAAAAAAAAAAAAAAAAAAAAAA&m); a.push(0x55555555555555555555555555555555&m); a.push(0x0123456789ABCDEFFEDCBA9876543210&m); a.push(0xFEDCBA98765432100123456789ABCDEF&m); a.sort(); a.dedup(); a }
fn main(){
  let ms=gen::machines();
  let total=std::sync::atomic::AtomicU64::new(0);
  let bad=std::sync::atomic::AtomicU64::new(0);
  std::panic::set_hook(Box::new(|_|{}));
  std::thread::scope(|sc|{
    let chunks: Vec<_> = ms.chunks((ms.len()+15)/16).collect();
    for ch in chunks { let total=&total; let bad=&bad; sc.spawn(move||{
      for m in ch {
        let n=m.n(); let states: Vec<u128> = if n<=12 {(0..(1u128<<n)).collect()} else {alpha(n)};
        let fs=m.fields();
        for &s in &states { if m.raw(s)!=s { bad.fetch_add(1,std::sync::atomic::Ordering::Relaxed); } }
        for (fi,f) in fs.iter().enumerate(){
          let w: u32 = f.ranges.iter().map(|r|r.1).sum();
          let vals: Vec<u128> = if w<=6 {(0..(1u128<<w)).collect()} else {alpha(w)};
          let cnt=f.arr.map_or(1,|a|a.0);
          for idx in 0..cnt { let p=positions(f,idx);
            for &s in &states {
              let r=std::panic::catch_unwind(std::panic::AssertUnwindSafe(||{
                let mut t=1u64; let mut b=0u64; let mut first=None;
                let g=m.get(s,fi,idx); if g!=ref_get(s,&p){b+=1; first.get_or_insert(("get",0u128,g));}
                for &v in &vals { let e=ref_with(s,&p,v); let a=m.with(s,fi,idx,v); let c=m.set(s,fi,idx,v); t+=2; if a!=e {b+=1; first.get_or_insert(("with",v,a));} if c!=e {b+=1; first.get_or_insert(("set",v,c));} }
                (t,b,first)
              }));
              match r { Ok((t,b,first))=>{ total.fetch_add(t,std::sync::atomic::Ordering::Relaxed); if b>0 { if bad.fetch_add(b,std::sync::atomic::Ordering::Relaxed)<20 { println!("MISMATCH {} field {} {:?} arr {:?} kind {} idx {} state {:#x} {:?}", m.name(), fi, f.ranges, f.arr, f.kind, idx, s, first); } } }
                Err(_)=>{ if bad.fetch_add(1,std::sync::atomic::Ordering::Relaxed)<20 { println!("PANIC {} field {} {:?} arr {:?} kind {} idx {} state {:#x}", m.name(), fi, f.ranges, f.arr, f.kind, idx, s); } } }
            }
          }
        }
      }
    });}
  });
  println!("transitions={} bad={}", total.into_inner(), bad.into_inner());
}
