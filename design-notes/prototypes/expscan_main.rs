use syn::visit::{self, Visit};
struct V { unsafe_hits: Vec<String>, bad_paths: Vec<String>, derived_depth: usize }
fn is_derived(attrs: &[syn::Attribute]) -> bool { attrs.iter().any(|a| a.path().is_ident("automatically_derived")) }
impl<'ast> Visit<'ast> for V {
  fn visit_item_impl(&mut self, i: &'ast syn::ItemImpl) {
    if is_derived(&i.attrs) { return; }
    if i.unsafety.is_some() { self.unsafe_hits.push("unsafe impl".into()); }
    visit::visit_item_impl(self, i);
  }
  fn visit_expr_unsafe(&mut self, e: &'ast syn::ExprUnsafe) { self.unsafe_hits.push("unsafe block".into()); visit::visit_expr_unsafe(self, e); }
  fn visit_item_fn(&mut self, f: &'ast syn::ItemFn) { if f.sig.unsafety.is_some() { self.unsafe_hits.push(format!("unsafe fn {}", f.sig.ident)); } visit::visit_item_fn(self, f); }
  fn visit_impl_item_fn(&mut self, f: &'ast syn::ImplItemFn) { if f.sig.unsafety.is_some() { self.unsafe_hits.push(format!("unsafe fn {}", f.sig.ident)); } visit::visit_impl_item_fn(self, f); }
  fn visit_path(&mut self, p: &'ast syn::Path) {
    if p.segments.len() >= 2 { let first = p.segments[0].ident.to_string(); if first == "std" || first == "alloc" { self.bad_paths.push(quote_path(p)); } }
    visit::visit_path(self, p);
  }
}
fn quote_path(p: &syn::Path) -> String { p.segments.iter().map(|s| s.ident.to_string()).collect::<Vec<_>>().join("::") }
fn main() {
  for f in std::env::args().skip(1) {
    let src = std::fs::read_to_string(&f).unwrap();
    match syn::parse_file(&src) {
      Ok(file) => { let mut v = V{unsafe_hits:vec![],bad_paths:vec![],derived_depth:0}; v.visit_file(&file); println!("{}: items={} unsafe={:?} bad_paths={:?}", f, file.items.len(), v.unsafe_hits, v.bad_paths); }
      Err(e) => println!("{}: PARSE ERROR {}", f, e),
    }
  }
}
