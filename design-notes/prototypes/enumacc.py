import itertools, json, subprocess, sys, os, collections
from concurrent.futures import ThreadPoolExecutor
SO=sys.argv[1]; RL=sys.argv[2]; DEPS=os.path.dirname(SO)
def valid(N, discs, exh, cfg, malformed):
    if not (1<=N<=64): return False
    if malformed: return False
    if any(d>=2**N for d in discs): return False
    cnt=len(discs)
    if cfg and exh!='conditional': return False
    if exh=='true': return cnt==2**N
    if exh in ('false',None): return cnt<2**N
    if exh=='conditional': return True
decls=[]
for N in (1,2,3):
    U=list(range(0,2**N+2))
    for k in range(1,2**N+2):
        for ds in itertools.combinations(U,k):
            for exh in ('true','false','conditional',None):
                for cfg in (False,True):
                    decls.append((N,ds,exh,cfg,None))
    for mal in ('missing','nonlit','neg'):
        for exh in ('true','false','conditional',None):
            decls.append((N,(0,1),exh,False,mal))
for N in (0,7,8,9,16,17,32,33,63,64,65,100,128):
    for ds in [(0,),(2**N-1,),(2**N,),(0,2**N-1)]:
        if any(d<0 for d in ds): continue
        for exh in ('true','false',None,'conditional'):
            decls.append((N,ds,exh,False,None))
print(len(decls),'declarations')
def emit(N,ds,exh,cfg,mal):
    a=f'u{N}'
    if exh is not None: a+=f', exhaustive = {exh}'
    vs=[]
    for i,d in enumerate(ds):
        pre='#[cfg(all())] ' if (cfg and i==0) else ''
        if mal=='missing' and i==1: vs.append(f'{pre}V{i}')
        elif mal=='nonlit' and i==1: vs.append(f'{pre}V{i} = 0 + 1')
        elif mal=='neg' and i==1: vs.append(f'{pre}V{i} = -1')
        else: vs.append(f'{pre}V{i} = {d}')
    rep = '#[repr(u64)] ' if N>=32 and N<=64 else ''
    return f'#[bitenum({a})] {rep}pub enum E {{ {", ".join(vs)} }}'
def run_chunk(idx, chunk):
    lines=['#![allow(dead_code,unused_imports,unused_variables,unused_mut,non_camel_case_types)]','use bitbybit::bitenum;','use arbitrary_int::*;']
    lmap={}
    for j,d in chunk:
        lines.append(f'mod m{j} {{ use super::*; {emit(*d)}')
        lmap[len(lines)]=j
        lines.append('}')
    fn=f'echunk{idx}.rs'
    open(fn,'w').write('\n'.join(lines)+'\n')
    p=subprocess.run(['rustc','--edition','2021','--crate-type','lib','--emit=metadata','--error-format=json','-o',f'echunk{idx}.rmeta','-L',f'dependency={DEPS}','--extern',f'bitbybit={SO}','--extern',f'arbitrary_int={RL}',fn],capture_output=True,text=True)
    rej={}
    for l in p.stderr.splitlines():
        try: d=json.loads(l)
        except: continue
        if d.get('level')!='error': continue
        for s in d['spans']:
            if s['is_primary'] and s['file_name']==fn and s['line_start'] in lmap:
                rej.setdefault(lmap[s['line_start']], d['message'][:90])
    return rej
chunks=[[] for _ in range(32)]
for j,d in enumerate(decls): chunks[j%32].append((j,d))
rej={}
with ThreadPoolExecutor(16) as ex:
    for r in ex.map(lambda a: run_chunk(*a), enumerate(chunks)): rej.update(r)
dis=collections.Counter(); ex_=[]
for j,d in enumerate(decls):
    v=valid(*d); acc = j not in rej
    if v!=acc:
        key=('valid-but-rejected' if v else 'invalid-but-accepted')
        dis[key]+=1
        if len(ex_)<30: ex_.append((key, emit(*d), rej.get(j)))
print('accepted',len(decls)-len(rej),'rejected',len(rej),'disagreements',dict(dis))
for e in ex_: print(e)
