import itertools, json, subprocess, sys, os, collections
from concurrent.futures import ThreadPoolExecutor
SO=sys.argv[1]; RL=sys.argv[2]; DEPS=os.path.dirname(SO)
N=int(sys.argv[3]) if len(sys.argv)>3 else 2
ranges=[(lo,hi) for lo in range(N) for hi in range(lo,N)]
ACC=['r','w','rw',None]
fopts=[(r,a) for r in ranges for a in ACC]
structs=[]
for k in (1,2,3):
    for fs in itertools.product(fopts,repeat=k):
        for dflt in (False,True):
            structs.append(('plain',fs,dflt))
# extra: self-overlap lists & arrays on u8
extra=[
 ('raw', 8, '#[bits([0..=3, 2..=5], rw)] x: u8', True, False),
 ('raw', 8, '#[bits([0..=3, 4..=7], rw)] x: u8', True, True),
 ('raw', 8, '#[bits([0..=3, 4..=7], rw)] x: u8', False, True),
 ('raw', 8, '#[bits([0..=1, 4..=5], rw)] x: u4', False, False),
 ('raw', 8, '#[bits([0, 2], rw, stride = 1)] x: [u2; 2]', True, True),
 ('raw', 8, '#[bits([0, 1], rw, stride = 1)] x: [u2; 2]', True, False),
 ('raw', 8, '#[bits([0, 2, 4, 6], rw, stride = 1)] x: [u4; 2]', False, True),
 ('raw', 8, '#[bits(0..=3, rw)] x: [u4; 2]', False, True),
 ('raw', 8, '#[bits(0..=2, rw, stride = 4)] x: [u3; 2]', False, False),
]
def offered(fs,dflt):
    m=0
    for (lo,hi),a in fs:
        if a in ('w','rw'):
            b=((1<<(hi-lo+1))-1)<<lo
            if m&b: return False
            m|=b
    return dflt or m==(1<<N)-1
def ty(w): return 'bool' if False else f'u{w}'
def emit(fs,dflt):
    b=f'u{N}'+(', default = 1' if dflt else '')
    fl=[]
    for i,((lo,hi),a) in enumerate(fs):
        acc='' if a is None else f', {a}'
        fl.append(f'#[bits({lo}..={hi}{acc})] f{i}: u{hi-lo+1}')
    return f'#[bitfield({b})] pub struct S {{ {", ".join(fl)} }}'
def arg(fs,i):
    (lo,hi),a=fs[i]; return f'u{hi-lo+1}::new(0)'
def probes(fs):
    wr=[i for i,(_,a) in enumerate(fs) if a in ('w','rw')]
    full=''.join(f'.with_f{i}({arg(fs,i)})' for i in wr)
    ps=[('exists','let _ = S::builder();',None), ('full', f'let _: S = S::builder(){full}.build();', True)]
    for cut in range(len(wr)):
        pre=''.join(f'.with_f{i}({arg(fs,i)})' for i in wr[:cut])
        ps.append((f'prefix{cut}', f'let _ = S::builder(){pre}.build();', False))
    for om in range(len(wr)):
        ch=''.join(f'.with_f{i}({arg(fs,i)})' for j,i in enumerate(wr) if j!=om)
        ps.append((f'omit{om}', f'let _ = S::builder(){ch}.build();', False))
    return ps
def run_chunk(idx, chunk):
    lines=['#![allow(dead_code,unused_imports,unused_variables,unused_mut,non_camel_case_types)]','use bitbybit::bitfield;','use arbitrary_int::*;']
    lmap={}
    for j,(kind,fs,dflt) in chunk:
        lines.append(f'mod m{j} {{ use super::*; {emit(fs,dflt)}')
        for name,body,_ in probes(fs):
            lines.append(f' pub fn {name}() {{ {body} }}')
            lmap[len(lines)]=(j,name)
        lines.append('}')
    fn=f'bchunk{idx}.rs'
    open(fn,'w').write('\n'.join(lines)+'\n')
    p=subprocess.run(['rustc','--edition','2021','--crate-type','lib','--emit=metadata','--error-format=json','-o',f'bchunk{idx}.rmeta','-L',f'dependency={DEPS}','--extern',f'bitbybit={SO}','--extern',f'arbitrary_int={RL}',fn],capture_output=True,text=True)
    fail={}
    other=[]
    for l in p.stderr.splitlines():
        try: d=json.loads(l)
        except: continue
        if d.get('level')!='error': continue
        hit=False
        for s in d['spans']:
            if s['is_primary'] and s['file_name']==fn and s['line_start'] in lmap:
                fail.setdefault(lmap[s['line_start']], (d.get('code') or {}).get('code')); hit=True
        if not hit and d['spans']: other.append(d['message'][:100])
    return fail,other
chunks=[[] for _ in range(64)]
for j,s in enumerate(structs): chunks[j%64].append((j,s))
fail={}; others=[]
with ThreadPoolExecutor(16) as ex:
    for f,o in ex.map(lambda a: run_chunk(*a), enumerate(chunks)): fail.update(f); others+=o
dis=collections.Counter(); exs=[]; nprobe=0
for j,(kind,fs,dflt) in enumerate(structs):
    off=offered(fs,dflt)
    for name,body,exp in probes(fs):
        nprobe+=1
        failed=(j,name) in fail
        if name=='exists': expect_ok=off
        elif not off: expect_ok=False
        else: expect_ok=bool(exp)
        if failed==expect_ok:
            dis[(name.rstrip('0123456789'), 'expected_ok' if expect_ok else 'expected_fail')]+=1
            if len(exs)<15: exs.append((emit(fs,dflt),name,body,fail.get((j,name))))
print('structs',len(structs),'probes',nprobe,'failed probes',len(fail),'codes',collections.Counter(fail.values()),'disagreements',dict(dis),'other errors',len(others), others[:3])
for e in exs: print(e)
