import itertools, random
NATIVE=(8,16,32,64,128)
def storage(n):
    for w in NATIVE:
        if n<=w: return w
def uty(w): return 'u%d'%w
def prim(w): return 'u%d'%storage(w)
structs=[]  # (name, N, fields) field=(name, ranges[(lo,len)], array(count,stride)|None, kind)
def fits(N, ranges, arr):
    top=max(lo+l for lo,l in ranges)
    if arr: top+= (arr[0]-1)*arr[1]
    return top<=N
def kinds_for(w):
    ks=[]
    if w==1: ks+=['bool','u']
    elif w in NATIVE: ks+=['n','i']
    else: ks+=['u']
    return ks
def add_struct(N, flist, tag):
    # chunk to 60 fields per struct
    for c in range(0,len(flist),60):
        structs.append((f'S{len(structs)}_{tag}', N, flist[c:c+60]))
for N in (1,3,7,8,9,12,16):
    fl=[]
    for lo in range(N):
        for hi in range(lo,N):
            w=hi-lo+1
            for k in kinds_for(w):
                fl.append(([(lo,w)],None,k))
    # arrays
    for lo in range(N):
        for w in range(1,N+1):
            for stride in range(w,N+1):
                for K in sorted(set(k for k in (2,3,N) if k>=2)):
                    if fits(N,[(lo,w)],(K,stride)):
                        for k in kinds_for(w):
                            fl.append(([(lo,w)],(K,stride),k))
    add_struct(N,fl,'c')
# noncontig on u8/u7: all ordered pairs/triples of disjoint ranges
def disjoint_lists(N,k):
    ranges=[(lo,l) for lo in range(N) for l in range(1,N-lo+1)]
    for combo in itertools.permutations(ranges,k):
        m=0; ok=True
        for lo,l in combo:
            b=((1<<l)-1)<<lo
            if m&b: ok=False;break
            m|=b
        if ok: yield list(combo)
for N in (6,8):
    fl=[]
    for k in (2,3):
        for rl in disjoint_lists(N,k):
            w=sum(l for _,l in rl)
            for kd in kinds_for(w):
                if kd=='bool': continue
                fl.append((rl,None,kd))
    random.seed(1); random.shuffle(fl); fl=fl[:1500]
    add_struct(N,fl,'nc')
# noncontig arrays on u16
fl=[]
for rl in [[(0,1),(2,1)],[(2,1),(0,1)],[(0,2),(4,2)],[(4,2),(0,2)],[(0,1),(2,1),(4,1),(6,1)],[(0,4),(8,4)],[(8,4),(0,4)]]:
    w=sum(l for _,l in rl)
    for stride in (1,2,3,4,8):
        for K in (2,3,4):
            if fits(16,rl,(K,stride)):
                for kd in kinds_for(w):
                    if kd=='bool': continue
                    fl.append((rl,(K,stride),kd))
add_struct(16,fl,'nca')
# wide bases boundary
for N in (17,24,31,32,33,48,63,64,65,100,127,128):
    W=storage(N)
    pos=sorted(set(p for p in (0,1,7,8,15,16,17,31,32,33,63,64,65,N-2,N-1) if 0<=p<N))
    fl=[]
    for lo in pos:
        for hi in pos:
            if hi<lo: continue
            w=hi-lo+1
            for k in kinds_for(w): fl.append(([(lo,w)],None,k))
    for w in (1,3,8,16,32,64):
        for lo in (0,1,5):
            for stride in (w,w+1,w+7):
                for K in (2,3,(N-lo-w)//stride+1):
                    if K>=2 and fits(N,[(lo,w)],(K,stride)):
                        for k in kinds_for(w): fl.append(([(lo,w)],(K,stride),k))
    # noncontig: byte swap style
    if N>=32:
        fl.append(([(N-8,8),(0,8)],None,'n')); fl.append(([(N-8,8),(0,8)],None,'i'))
        fl.append(([(N-1,1),(0,7),(8,8)],None,'n')); fl.append(([(N-1,1),(0,7),(8,8)],None,'i'))
        fl.append(([(N-16,16),(0,16)],None,'n')); fl.append(([(0,16),(N-16,16)],None,'i'))
        fl.append(([(N-3,3),(4,4),(0,2)],None,'u'))
    add_struct(N,fl,'w')
out=['#![allow(dead_code,unused_imports,unused_parens,clippy::all)]','use bitbybit::bitfield;','use arbitrary_int::*;','use crate::*;']
table=[]
def fty(w,k): return {'bool':'bool','u':'u%d'%w,'n':'u%d'%w,'i':'i%d'%w}[k]
def toval(w,k,e):
    if k=='bool': return f'({e}!=0)'
    if k=='n': return f'({e} as u{w})'
    if k=='i': return f'({e} as u{w} as i{w})'
    return f'u{w}::new({e} as {prim(w)})'
def fromval(w,k,e):
    if k=='bool': return f'({e} as u128)'
    if k=='n': return f'({e} as u128)'
    if k=='i': return f'({e} as u{w} as u128)'
    return f'({e}.value() as u128)'
for name,N,fl in structs:
    W=storage(N)
    out.append(f'#[bitfield(u{N})] pub struct {name} {{')
    for i,(rl,arr,k) in enumerate(fl):
        w=sum(l for _,l in rl)
        def r(lo,l): return f'{lo}' if l==1 and (k=='bool' or len(rl)>1) else f'{lo}..={lo+l-1}'
        if len(rl)==1:
            lo,l=rl[0]
            a = f'bit({lo}, rw' if (l==1 and k=='bool') else f'bits({lo}..={lo+l-1}, rw'
        else:
            a = 'bits(['+', '.join(r(lo,l) for lo,l in rl)+'], rw'
        if arr: a+=f', stride = {arr[1]}'
        a+=')'
        t=fty(w,k)
        if arr: t=f'[{t}; {arr[0]}]'
        out.append(f'  #[{a}] f{i}: {t},')
    out.append('}')
    base_new = (lambda e: f'({e} as u{N})') if N==W else (lambda e: f'u{N}::new({e} as u{W})')
    base_val = (lambda e: f'({e} as u128)') if N==W else (lambda e: f'({e}.value() as u128)')
    out.append(f'pub struct M_{name};')
    out.append(f'impl Machine for M_{name} {{')
    out.append(f' fn name(&self)->&\'static str {{ "{name}" }}')
    out.append(f' fn n(&self)->u32 {{ {N} }}')
    out.append(' fn fields(&self)->Vec<F> { vec![')
    for i,(rl,arr,k) in enumerate(fl):
        out.append(f'  F{{ranges: vec!{[(lo,l) for lo,l in rl]}, arr: {("Some((%d,%d))"%arr) if arr else "None"}, kind: \'{k[0]}\'}},')
    out.append(' ] }')
    NEW=name+"::new_with_raw_value("+base_new("s")+")"
    out.append(' fn raw(&self,s:u128)->u128 { '+base_val(NEW+".raw_value()")+' }')
    out.append(f' fn get(&self,s:u128,f:usize,idx:usize)->u128 {{ let o={NEW}; match f {{')
    for i,(rl,arr,k) in enumerate(fl):
        w=sum(l for _,l in rl)
        call = f'o.f{i}(idx)' if arr else f'o.f{i}()'
        out.append(f'  {i} => {fromval(w,k,call)},')
    out.append('  _=>unreachable!() } }')
    out.append(f' fn with(&self,s:u128,f:usize,idx:usize,v:u128)->u128 {{ let o={NEW}; let r=match f {{')
    for i,(rl,arr,k) in enumerate(fl):
        w=sum(l for _,l in rl)
        TV=toval(w,k,'v')
        call = f'o.with_f{i}(idx, {TV})' if arr else f'o.with_f{i}({TV})'
        out.append(f'  {i} => {call},')
    out.append('  _=>unreachable!() }; '+base_val("r.raw_value()")+' }')
    out.append(f' fn set(&self,s:u128,f:usize,idx:usize,v:u128)->u128 {{ let mut o={NEW}; match f {{')
    for i,(rl,arr,k) in enumerate(fl):
        w=sum(l for _,l in rl)
        TV=toval(w,k,'v')
        call = f'o.set_f{i}(idx, {TV})' if arr else f'o.set_f{i}({TV})'
        out.append(f'  {i} => {call},')
    out.append('  _=>unreachable!() }; '+base_val("o.raw_value()")+' }')
    out.append('}')
out.append('pub fn machines()->Vec<Box<dyn Machine>>{ vec![')
for name,N,fl in structs: out.append(f' Box::new(M_{name}),')
out.append('] }')
open('src/gen.rs','w').write('\n'.join(out))
print(len(structs), sum(len(f) for _,_,f in structs))
